#!/bin/bash
# usage: benign_eval.sh <patch file> <check ids...>  -- development helper: apply a property-preserving change to the
# scratch copy /tmp/alt_repo/repo and run checks against it; every check must exit 0.
p=$1; shift
R=/tmp/alt_repo2/repo; export VERIF_ALT_DIR=/tmp/verif_alt2
cd $R && git checkout -q -- . && git clean -fdq -e target >/dev/null 2>&1
git apply $p || { echo "$(basename $p): patch does not apply"; exit 2; }
for c in "$@"; do
  s=$(date +%s)
  out=$(cd /verif && VERIF_REPO=$R ./check_alt $c --tier ${TIER:-quick} 2>/tmp/benign_eval.err); rc=$?
  echo "benign $(basename $p .diff) check=$c exit=$rc t=$(( $(date +%s)-s ))s $(echo "$out" | grep -m1 '^VIOLATION\|^KNOWN') $( [ $rc -ne 0 ] && grep -m2 -E '^  (scenario|C[0-9]+:)|MACHINERY' /tmp/benign_eval.err | cut -c1-300)"
done
cd $R && git checkout -q -- .
