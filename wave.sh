#!/bin/bash
# usage: wave.sh <ID> [registry]  -- development helper: confirm a sub-agent change in its scratch worktree, then run the owning quick check on the scratch copy
id=$1; prop=${id:0:3}
if [ "${2:-}" = registry ]; then t=signal-hook-registry/tests; p=signal-hook-registry; else t=tests; p=signal-hook; fi
cd /verif
./confirm_seed.sh $id $t $p "${3:-}" 2>&1 | tail -1 | cut -c1-700
./seed_eval.sh $id $prop 2>&1 | tail -1
