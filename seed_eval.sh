#!/bin/bash
# usage: seed_eval.sh <ID> [check ids...]  -- apply /tmp/seed/out/<ID>/patch.diff to the scratch copy and run checks (development helper)
id=$1; shift; checks=${@:-$id}
R=/tmp/alt_repo/repo
cd $R && git checkout -q -- . && git clean -fdq -e target >/dev/null 2>&1
git apply /tmp/seed/out/$id/patch.diff || { echo "$id: patch does not apply"; exit 2; }
for c in $checks; do
  out=$(cd /verif && VERIF_ENGINE_SRC=${VERIF_ENGINE_SRC:-/verif/engine} VERIF_REPO=$R ./check_alt $c --tier ${TIER:-quick} 2>/tmp/seed_eval_$id.err); rc=$?
  echo "seed $id check=$c exit=$rc $(echo "$out" | grep -c '^VIOLATION') violation lines; $(grep -m1 -E '^  (scenario|C[0-9]+:)' /tmp/seed_eval_$id.err | cut -c1-220)"
done
cd $R && git checkout -q -- .
