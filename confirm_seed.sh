#!/bin/bash
# usage: confirm_seed.sh <ID> <crate-dir-relative-tests-path> <package>   e.g. C01 signal-hook-registry/tests signal-hook-registry
# Confirms in the agent's scratch worktree: builds, suite 36/36 with patch, demo fails with patch, passes without.
id=$1; tdir=$2; pkg=$3; feat=${4:-}
W=/tmp/seed/$id; O=/tmp/seed/out/$id
export CARGO_TARGET_DIR=$W/target CARGO_NET_OFFLINE=true
cd $W || exit 2
git checkout -q -- . ; git clean -fdq -e target
demo=$(ls $O/demo | head -1); name=${demo%.rs}
patch=$O/patch.diff; [ -f $O/patch.rebased.diff ] && patch=$O/patch.rebased.diff
cp $O/demo/$demo $tdir/
base=$(timeout 300 cargo test -p $pkg --test $name --offline $feat 2>&1 | grep -E "^test result|panicked|error" | head -2 | tr '\n' ' ')
git apply $patch || { echo "$id: patch does not apply"; exit 2; }
suite=$(cargo nextest run --workspace --no-fail-fast --test-threads 8 --offline 2>&1 | grep -E "Summary" | head -1)
withp=$(timeout 300 cargo test -p $pkg --test $name --offline $feat 2>&1 | grep -E "^test result|panicked|error|timed out" | head -2 | tr '\n' ' ')
echo "$id | demo without patch: $base | suite with patch (incl. demo): $suite | demo with patch: $withp"
git checkout -q -- . ; rm -f $tdir/$demo
