#!/opt/veriftools/pyvenv/bin/python
import json, jsonschema, sys, glob
jsonschema.validate(json.load(open('/verif/MANIFEST.json')), json.load(open('/root/.vp/MANIFEST.schema.json')))
print('manifest valid')
sch = json.load(open('/root/.vp/EVIDENCE.schema.json'))
for f in sorted(glob.glob('/verif/evidence/*.json')):
    try:
        jsonschema.validate(json.load(open(f)), sch); print(f, 'valid')
    except Exception as e:
        print(f, 'INVALID', str(e)[:300])
