#!/usr/bin/env python3
"""tools/table.py <evidence dir> : markdown table of what a tier covered (development helper)."""
import json, sys, os
d = sys.argv[1] if len(sys.argv) > 1 else "/verif/evidence"
print("| property | engine | scenarios / cells | bounds | executions | states | transitions | distinct outcomes | caps | wall s |")
print("|---|---|---|---|---|---|---|---|---|---|")
for n in range(1, 19):
    pid = f"C{n:02d}"
    p = os.path.join(d, pid + ".json")
    if not os.path.exists(p):
        print(f"| {pid} | - | (no evidence file) | | | | | | | |"); continue
    e = json.load(open(p)); c = e["coverage"]
    per = c.get("per_scenario") or []
    if per and isinstance(per[0], dict) and "deviation_bound" in per[0]:
        bounds = sorted({str(x.get("deviation_bound")) for x in per})
        eng, sc = "A", len(per)
        b = "/".join(bounds)
    else:
        eng, sc, b = "B", c.get("evaluations"), c.get("bound_completed") or "complete grid / depth in rule"
    print(f"| {pid} | {eng} | {sc} | {b} | {c.get('evaluations')} | {c.get('states')} | {c.get('transitions')} | {c.get('distinct_nontrivial')} | {len(c.get('caps_hit') or [])} | {round(e.get('wall_s',0),1)} |")
