#!/usr/bin/env python3
"""Generates MANIFEST.json from the table below (keeps the file valid at all times)."""
import json, subprocess
A = "engine A (sigsched): stateless model checking of the real code - exhaustive DFS over choice vectors (thread switches, kernel-delivered nested signal arrivals, C11 stale reads, spurious weak-CAS failures) within a deviation bound"
B = "engine B (histex): bounded-exhaustive enumeration of operation histories / configuration grids executed on the real code in forked children, judged against a reference model"
claimed = {
 "C06": (A, "Every interleaving / weak-memory read choice / nested send of small-scope channel harnesses (2-3 threads, 1-3 operations each, fresh and rotated start states) within the deviation bound is executed on the real Channel; each execution is judged by a call/return-history oracle (nothing invented, at most once, order consistent with happens-before of sends, discard only with >=5 outstanding, empty only when nothing sent-before remains) plus the happens-before race detector on the cell accesses.", "5"),
 "C07": (A, "Same executions as C06 with the happens-before (vector clock) race detector on the cell write/take events under the declared orderings, and exactly-once drop accounting of tracked payloads after the channel is dropped.", "5"),
 "C08": (A, "Same executions as C06; every send/recv (also nested in a handler frame interrupting a send/recv on its own thread, with injected spurious CAS failures) must finish within 4 own steps + its failed compare-exchanges, never panic, never livelock (step horizon), never crash the process.", "5"),
}

claimed.update({
 "C01": (A, "Half-lock in small scope (1-2 writers x 1-2 stores, 1-3 readers, a read nested in the writer at every operation boundary; every interleaving for the smallest, deviation-bounded otherwise, stale reads allowed by the declared orderings) and the process-global registry with kernel-delivered signals (unregister / unregister_signal vs delivery threads and nested arrivals in the mutator). Oracles on every execution: no snapshot opened after release or released while a section is open (event monitor), vector-clock race detector between section open/close and release, captured state released exactly once, before removal returns, by the removing thread, outside handler frames; no invocation in progress or started after removal returned.", "5"),
 "C02": (A, "Registry mutator chains (register/unregister/unregister_signal/first registration, one or two signals, one or two mutators) against delivery threads and nested arrivals; per delivery the set and order of actions run must equal the action list of one registry state current during the delivery, with must-run / must-not-run cross-checks from call/return indices.", "5"),
 "C03": (A, "Every built-in action installed on one signal (flags, conditional shutdown/default, self-pipes of three kinds empty and full, three iterator exfiltrators); deliveries from another thread and nested at every operation boundary of registry, iterator and channel mutators. Engine-wide monitors: no Mutex, yield/spin hint, blocking read or heap allocation/free by library code inside a handler frame (global allocator wrapper), every delivery returns, un-preempted deliveries finish within the step bound fixed from the code; a blocked or crashing handler is caught by the worker watchdog.", "5"),
 "C04": (A, "First registration (with a concurrent first registration of another signal) vs deliveries at every instant, for previous dispositions default/ignore/one-argument/three-argument; the kernel's real disposition table decides what runs. Per delivery: foreign handler exactly once, before any action, right convention and non-null info/context; afterwards the library handler is installed with SA_SIGINFO|SA_RESTART.", "5"),
 "C09": (A, "Real Signals / SignalsInfo<WithRawSiginfo> / SignalDelivery / poll_signal consumers over a real socket pair against 1-2 delivery threads, add_signal from another thread and nested arrivals inside the consumer (every boundary incl. all 128 scan steps). At quiescence (nobody else runnable) a blocked consumer with an unreported delivery is the lost wake-up; every delivery must be followed by a yield after its store (payload-exact for the info-carrying exfiltrator).", "5"),
 "C10": (A, "Same executions as C09 with counting oracles at every yield (yields <= deliveries begun since added; only watched numbers), payload-exact record matching (each queued delivery at most one record, faithful copy, delivery order for non-overlapping deliveries) and a burst of 7 deliveries against the 5-deep buffer.", "5"),
 "C11": (A, "close() from 1-2 handle clones at every instant against wait / forever / pending / poll_signal consumers with a concurrent delivery: is_closed sticky, every consumer terminates (deadlock/livelock detection), forever ends, and every PollResult::Pending was preceded in the same call by a callback consultation that answered not-ready.", "5"),
 "C18": (A, "Half-lock writers vs re-entering readers (every interleaving for 1 writer + 2 readers) and registry mutators on one or two signals including one that panics on a forbidden signal and an unchecked registration the OS refuses, iterator add_signal / drop against registry calls, relay scenarios in which finite deliveries overlap so that one is always in flight until the mutator is done, with delivery threads and nested arrivals inside the barrier; fair scheduling (a yielding spinner is only re-run after someone else moved): any deadlock, any state where only yielding threads remain, or the step horizon is a violation.", "5"),
})

claimed.update({
 "C05": (B, "Explicit-state BFS over reference-model states (per issued id: signal, live, kind) to depth 6 (quick) / 8 (thorough) over register / register_sigaction / unregister(every id ever returned, live and stale) / unregister_signal / deliver on three signals; every transition is executed as a complete history on the real registry from a reset and compared step by step with the model (fresh ids, unregister's return value, exact action sequence of every delivery, probe deliveries of all signals, disposition = library handler with SA_RESTART|SA_SIGINFO also with zero actions); plus grids over all signal numbers, a 10000-step id cycle and a system-call-restart probe.", "5"),
 "C12": (B, "Every history new(list) + up to 3 (quick) / 4 (thorough) operations over add_signal(ok / already watched / forbidden / negative / too large / OS-refused) / clone handle / drop handle / drop instance, 12 failing constructor lists, and add_signal(x) twice for every x in [-2,130]+MIN/MAX, for the three exfiltrators; each history in a forked child that probes after every step (wake attempts per probe signal, foreign actions still firing, what the consumer drains, open descriptors) and is compared with a reference model; abort or unexpected death of the child is a violation.", "5"),
 "C13": (B, "Complete grid descriptor kind x fill level x burst length x entry point plus ownership histories (register/deliver/unregister; rejected registrations: forbidden, OS-refused, fd -1, closed number; then a sentinel on the freed number), each in a forked child with a watchdog: wake attempts == deliveries, bytes <= deliveries and exact when empty, prompt return when full, one byte after a drain, descriptor closed exactly once and never written again. Plus schedules (engine A, deviation-bounded, real code): the action of a registered pipe is removed and an iterator instance and its last handle are dropped (both orders) against deliveries from another thread and nested at every operation boundary of the teardown - every wake attempt must go to an open descriptor and none happens once the owners are gone.", "5"),
 "C14": (B, "Complete grid 16 entry points x signal numbers [-2,130]+MIN/MAX x context (quick: fresh; thorough: also after two registrations), one forked child per cell; expected class from a rule using the OS verdict obtained by an independent sibling; on refusal: child alive (no abort), disposition table unchanged, earlier actions still fire once, captured Arcs released, descriptor closed, next valid registration through the same entry point succeeds.", "5"),
 "C15": (B, "Every history of length <= 4 (quick) / 5 (thorough) over {deliver, app stores true / false / other} x both registration orders x termination signals x how the condition is shared (clone / only strong handle moved into the registration, application arms through a weak one), exit statuses {0,1,42,255} (quick) / 0..255 (thorough), each in a forked child; fate compared with a one-boolean reference model: dies in exactly the modelled delivery with WIFEXITED and exactly the status, no atexit hook, no later action in the fatal delivery; flags hold true / the registered value after every surviving delivery.", "5"),
 "C16": (B, "Complete grid signal 1..64 + out-of-range numbers x calling context (normal, inside own action blocked, inside own action unblocked, deliveries under register_conditional_default with the condition true / false; for signals without a known name also blocked with one instance pending under an application handler / the default disposition, where mask, pending set, disposition and handler runs must be untouched): emulated child vs native child (SIG_DFL + raise) classified by waitpid(WUNTRACED) inside a constructed non-orphaned process group; names compared with sigabbrev_np.", "5"),
 "C17": (B, "Complete grid sending mechanism (kill, raise, sigqueue, kill from another process, child exit/kill/stop/continue, setitimer, timer_create, SIGPIPE) x catchable signal (quick: 6 representatives; thorough: all) observed by the library (WithOrigin iterator and Origin::extract in an action) and by an independent chained SA_SIGINFO reader in single-threaded forked children; plus the complete synthetic grid si_signo 1..64 x si_code in [-10,10]+{0x80,MIN,MAX} with a poisoned union and again with si_pid / si_uid in {(0,4242),(0,0),(4242,0),(1,1)}.", "5"),
})
pending = {}
allp = [json.loads(l)["id"] for l in open("/verif/properties.jsonl")]
checks = []
for pid in allp:
    if pid not in claimed: continue
    tech, text, ref = claimed[pid]
    checks.append({
        "property_id": pid,
        "quick_cmd": f"./check {pid} --tier quick",
        "thorough_cmd": f"./check {pid} --tier thorough",
        "evidence_file": f"/verif/evidence/{pid}.json",
        "replay_cmd_template": "./check replay {path}",
        "engine": "sigsched" if tech is A else "histex",
        "level_claimed": {"category": "model_checking", "text": text, "design_ref": f"DESIGN.md section {ref} ({pid})"},
        "level_note": "Trusted: Linux kernel signal delivery, glibc, std::sync::Arc/Once internals, the scheduler shim (cfg sighook_verif) which wraps the genuine std primitives; bounds as recorded per scenario in the evidence. Memory-model layer generates only C11-consistent executions without load buffering.",
        "technique": ("stateless model checking (controlled scheduler, deviation-bounded exhaustive DFS over real executions)" if tech is A else "explicit-state bounded-exhaustive history/grid enumeration against a reference model"),
    })
hooks_commits = subprocess.run(["git","-C","/repo","log","--format=%H %s"],capture_output=True,text=True).stdout.splitlines()
m = {
 "version": 1,
 "setup_cmd": "cd /verif/engine && CARGO_NET_OFFLINE=true RUSTFLAGS='--cfg sighook_verif' cargo build --release --offline && /verif/check selftest >/dev/null",
 "hooks": {
   "guard": "sighook_verif",
   "enable": "RUSTFLAGS='--cfg sighook_verif' (the engine crate depends on /repo and /repo/signal-hook-registry by path and is rebuilt by every check)",
   "baseline_off_cmd": "cd /repo && cargo nextest run --workspace --no-fail-fast --tool-config-file pb:/w/lib/nextest.toml --profile pb --test-threads 8 --offline || cargo test --workspace --no-fail-fast --offline",
   "source_commits": [l.split()[0] for l in hooks_commits if "verif hooks" in l],
   "add_only": True,
 },
 "engines": [
   {"name": "sigsched", "path": "/verif/engine", "serves_properties": [p for p in allp if p in claimed and claimed[p][0] is A], "kind_free_text": A},
   {"name": "histex", "path": "/verif/engine", "serves_properties": [p for p in allp if p in claimed and claimed[p][0] is B], "kind_free_text": B},
 ],
 "checks": checks,
 "not_applicable": [{"property_id": p, "reason": pending.get(p, "check under construction in this session (engine exists; harness not yet registered) - not claimed until its check runs clean")} for p in allp if p not in claimed],
 "notes": "Exit codes: 0 held, 1 VIOLATION line printed, 2 machinery failure. Known findings: /verif/known_findings.txt.",
}
json.dump(m, open("/verif/MANIFEST.json","w"), indent=1)
print("claimed", len(checks), "not_applicable", len(m["not_applicable"]))
