//! Stateless depth-first exploration of choice vectors (deviation-bounded or unbounded), split
//! over forked worker processes. Every execution is a run of the real code (`Runnable::run`).
#![allow(clippy::all)]

use crate::sched::{self, Ev, Exec, Outcome, Progress, Scenario};
use serde_json::{json, Value};
use std::collections::HashSet;
use std::io::{Read, Write};
use std::sync::atomic::{AtomicU64, AtomicUsize, Ordering};
use std::time::{Duration, Instant};

pub trait Runnable: Sync {
    fn name(&self) -> String;
    fn run(&self, choices: &[u32], keep_log: bool) -> Outcome;
    fn nthreads(&self) -> usize;
}

impl<S: Sync + Send> Runnable for Scenario<S> {
    fn name(&self) -> String {
        self.name.clone()
    }
    fn run(&self, choices: &[u32], keep_log: bool) -> Outcome {
        sched::run_one(self, choices, keep_log)
    }
    fn nthreads(&self) -> usize {
        self.threads.len()
    }
}

#[derive(Clone, Debug)]
pub struct Config {
    pub property: String,
    /// None = every interleaving.
    pub bound: Option<u32>,
    pub max_wall: Duration,
    pub workers: usize,
    pub hang_secs: u64,
}

#[derive(Clone, Debug, Default)]
pub struct Stats {
    pub executions: u64,
    pub states: u64,
    pub transitions: u64,
    pub interleaved: u64,
    pub switches: u64,
    pub signals: u64,
    pub stale: u64,
    /// executions in which a write barrier took its second generation switch (the path added by the F6 repair)
    pub reflip_executions: u64,
    pub max_decisions: u64,
    pub capped: bool,
    pub unexplored_jobs: u64,
    pub digests: HashSet<u64>,
    pub digests_interleaved: HashSet<u64>,
    pub violating_executions: u64,
    pub diverged: u64,
    pub skipped: u64,
    pub new_shared: Vec<(u32, u32)>,
    pub violations: Vec<Violation>,
}

impl Stats {
    fn add(&mut self, o: &Outcome, prefix_len: usize) {
        self.executions += 1;
        if o.diverged > 0 {
            self.diverged += 1;
        }
        self.skipped += o.skipped;
        for k in &o.new_shared {
            if !self.new_shared.contains(k) {
                self.new_shared.push(*k);
            }
        }
        if o.violation.is_some() {
            record_violation(o, self);
        }
        self.states += (o.decisions.len().saturating_sub(prefix_len)) as u64 + if prefix_len == 0 { 1 } else { 0 };
        self.transitions += o.steps;
        self.switches += o.switches;
        self.signals += o.signals;
        self.stale += o.stale;
        if o.reflips > 0 {
            self.reflip_executions += 1;
        }
        if o.interleaved {
            self.interleaved += 1;
            if self.digests_interleaved.len() < 2_000_000 {
                self.digests_interleaved.insert(o.digest);
            }
        }
        if self.digests.len() < 2_000_000 {
            self.digests.insert(o.digest);
        }
        self.max_decisions = self.max_decisions.max(o.decisions.len() as u64);
    }
    pub fn merge(&mut self, o: &Stats) {
        self.executions += o.executions;
        self.states += o.states;
        self.transitions += o.transitions;
        self.interleaved += o.interleaved;
        self.switches += o.switches;
        self.signals += o.signals;
        self.stale += o.stale;
        self.reflip_executions += o.reflip_executions;
        self.max_decisions = self.max_decisions.max(o.max_decisions);
        self.capped |= o.capped;
        self.unexplored_jobs += o.unexplored_jobs;
        self.violating_executions += o.violating_executions;
        self.diverged += o.diverged;
        self.skipped += o.skipped;
        for k in &o.new_shared {
            if !self.new_shared.contains(k) {
                self.new_shared.push(*k);
            }
        }
        self.violations.extend(o.violations.iter().cloned());
        self.digests.extend(o.digests.iter().copied());
        self.digests_interleaved.extend(o.digests_interleaved.iter().copied());
    }
    fn to_json(&self) -> Value {
        json!({
            "executions": self.executions, "states": self.states, "transitions": self.transitions,
            "interleaved": self.interleaved, "switches": self.switches, "signals": self.signals,
            "stale": self.stale, "reflip_executions": self.reflip_executions, "max_decisions": self.max_decisions, "capped": self.capped,
            "unexplored_jobs": self.unexplored_jobs,
            "violating_executions": self.violating_executions,
            "diverged": self.diverged,
            "skipped": self.skipped,
            "new_shared": self.new_shared.iter().map(|k| json!([k.0, k.1])).collect::<Vec<_>>(),
            "violations": self.violations.iter().map(|v| json!({"message": v.message, "cost": v.cost, "choices": v.choices, "replay": v.replay, "log": v.log.iter().map(ev_json).collect::<Vec<_>>()})).collect::<Vec<_>>(),
            "digests": self.digests.iter().collect::<Vec<_>>(),
            "digests_interleaved": self.digests_interleaved.iter().collect::<Vec<_>>(),
        })
    }
    fn from_json(v: &Value) -> Stats {
        let g = |k: &str| v[k].as_u64().unwrap_or(0);
        let set = |k: &str| -> HashSet<u64> {
            v[k].as_array().map(|a| a.iter().filter_map(|x| x.as_u64()).collect()).unwrap_or_default()
        };
        Stats {
            executions: g("executions"),
            states: g("states"),
            transitions: g("transitions"),
            interleaved: g("interleaved"),
            switches: g("switches"),
            signals: g("signals"),
            stale: g("stale"),
            reflip_executions: g("reflip_executions"),
            max_decisions: g("max_decisions"),
            capped: v["capped"].as_bool().unwrap_or(false),
            unexplored_jobs: g("unexplored_jobs"),
            violating_executions: g("violating_executions"),
            diverged: g("diverged"),
            skipped: g("skipped"),
            new_shared: v["new_shared"].as_array().map(|a| a.iter().map(|k| (k[0].as_u64().unwrap_or(0) as u32, k[1].as_u64().unwrap_or(0) as u32)).collect()).unwrap_or_default(),
            violations: v["violations"].as_array().map(|a| a.iter().map(|vi| Violation {
                property: String::new(), scenario: String::new(),
                message: vi["message"].as_str().unwrap_or("").to_string(),
                replay: vi["replay"].as_str().unwrap_or("").to_string(),
                cost: vi["cost"].as_u64().unwrap_or(0) as u32,
                choices: vi["choices"].as_array().map(|a| a.iter().filter_map(|x| x.as_u64()).map(|x| x as u32).collect()).unwrap_or_default(),
                log: vec![],
                log_json: vi["log"].as_array().cloned().unwrap_or_default(),
                shared: vec![],
            }).collect()).unwrap_or_default(),
            digests: set("digests"),
            digests_interleaved: set("digests_interleaved"),
        }
    }
}

#[derive(Clone, Debug)]
pub struct Violation {
    pub property: String,
    pub scenario: String,
    pub message: String,
    pub replay: String,
    pub cost: u32,
    pub choices: Vec<u32>,
    pub log: Vec<Ev>,
    /// the log tail as received from a worker
    pub log_json: Vec<Value>,
    /// the shared-location set of the private-location reduction the execution ran with
    pub shared: Vec<(u32, u32)>,
}

#[derive(Clone, Debug)]
pub struct Summary {
    pub scenario: String,
    pub bound: Option<u32>,
    pub stats: Stats,
    pub violations: Vec<Violation>,
    pub violating_executions: u64,
    pub wall_s: f64,
    pub samples: Vec<Value>,
    pub nthreads: usize,
    pub reduction_restarts: u32,
    pub shared_locations: usize,
}

// ---------------------------------------------------------------------------------------------
// Violation reporting from inside a worker

struct Ctx {
    property: String,
    scenario: String,
    pipe_fd: i32,
    replay_dir: String,
}
static CTX: AtomicUsize = AtomicUsize::new(0);

fn ctx() -> &'static Ctx {
    unsafe { &*(CTX.load(Ordering::SeqCst) as *const Ctx) }
}

pub fn ev_json(ev: &Ev) -> Value {
    json!([ev.step, ev.tid, ev.depth, ev.tag, ev.a, ev.b])
}

pub fn choices_cost(e: &Exec) -> u32 {
    (0..e.decisions.len()).map(|i| e.costs_of(i)[e.decisions[i].chosen as usize] as u32).sum()
}

pub fn hash_choices(c: &[u32]) -> u64 {
    let mut h: u64 = 0xcbf29ce484222325;
    for &x in c {
        h ^= x as u64 + 1;
        h = h.wrapping_mul(0x100000001b3);
    }
    h
}

pub fn write_replay_json(property: &str, scenario: &str, dir: &str, choices: &[u32], message: &str, tail: &[Value], cost: u32) -> String {
    let _ = std::fs::create_dir_all(dir);
    let path = format!("{}/{}-{}-{:016x}.json", dir, property, scenario.replace(|c: char| !c.is_ascii_alphanumeric(), "_"), hash_choices(choices));
    let shared: Vec<Value> = sched::SHARED_KEYS.lock().map(|g| g.iter().map(|k| json!([k.0, k.1])).collect()).unwrap_or_default();
    let v = json!({
        "property": property, "scenario": scenario, "engine": "sigsched", "choices": choices,
        "deviations": cost, "message": message,
        "shared_locations": shared,
        "log_format": "[step, thread, handler_depth, tag, a, b]", "log_tail": tail,
    });
    let _ = std::fs::write(&path, serde_json::to_string_pretty(&v).unwrap());
    path
}

pub fn write_replay(property: &str, scenario: &str, dir: &str, choices: &[u32], message: &str, log: &[Ev], cost: u32) -> String {
    let _ = std::fs::create_dir_all(dir);
    let path = format!("{}/{}-{}-{:016x}.json", dir, property, scenario.replace(|c: char| !c.is_ascii_alphanumeric(), "_"), hash_choices(choices));
    let tail: Vec<Value> = log.iter().rev().take(400).rev().map(ev_json).collect();
    let v = json!({
        "property": property, "scenario": scenario, "engine": "sigsched", "choices": choices,
        "deviations": cost, "message": message,
        "log_format": "[step, thread, handler_depth, tag, a, b]", "log_tail": tail,
    });
    let _ = std::fs::write(&path, serde_json::to_string_pretty(&v).unwrap());
    path
}

/// Class of a violation message (its prefix): used to attribute violations to properties.
pub fn class_of(msg: &str) -> String {
    let m = msg.trim_start();
    for (p, c) in [("data race", "race"), ("livelock", "livelock"), ("deadlock", "deadlock"), ("heap ", "alloc"), ("use after free", "uaf"), ("execution hung", "hung"), ("process died", "crash"), ("engine", "engine")] {
        if m.starts_with(p) {
            return c.to_string();
        }
    }
    match m.find(':') {
        Some(i) if i <= 12 => m[..i].to_string(),
        _ => "other".to_string(),
    }
}

fn record_violation(out: &Outcome, st: &mut Stats) {
    let c = ctx();
    let msg = out.violation.clone().unwrap_or_default();
    let choices: Vec<u32> = out.decisions.iter().map(|d| d.1 as u32).collect();
    let cost: u32 = out.decisions.iter().zip(out.costs.iter()).map(|(d, cs)| cs[d.1 as usize] as u32).sum();
    let class = class_of(&msg);
    st.violating_executions += 1;
    // keep the cheapest per class
    let better = match st.violations.iter().find(|v| class_of(&v.message) == class) {
        None => true,
        Some(v) => (cost, &choices) < (v.cost, &v.choices),
    };
    if better {
        st.violations.retain(|v| class_of(&v.message) != class);
        st.violations.push(Violation { property: c.property.clone(), scenario: c.scenario.clone(), message: msg, replay: String::new(), cost, choices, log: out.log.clone(), log_json: vec![], shared: vec![] });
    }
}

// ---------------------------------------------------------------------------------------------
// Shared memory

#[repr(C)]
struct Shared {
    next_job: AtomicU64,
    stop: AtomicU64,
    progress: [Progress; 32],
}

fn map_shared() -> &'static Shared {
    unsafe {
        let sz = std::mem::size_of::<Shared>();
        let p = libc::mmap(
            std::ptr::null_mut(),
            sz,
            libc::PROT_READ | libc::PROT_WRITE,
            libc::MAP_SHARED | libc::MAP_ANONYMOUS,
            -1,
            0,
        );
        assert!(p != libc::MAP_FAILED);
        &*(p as *const Shared)
    }
}

fn unmap_shared(s: &'static Shared) {
    unsafe {
        libc::munmap(s as *const Shared as *mut _, std::mem::size_of::<Shared>());
    }
}

fn finalize_violations(st: &mut Stats) {
    // replay files are written by the parent, only for the violations it finally reports
    for v in st.violations.iter_mut() {
        let n = v.log.len();
        if n > 400 {
            v.log.drain(..n - 400);
        }
    }
}

type Job = (Vec<u32>, u32);

/// Children of an execution, kept compactly: (shared base choices, position, alternative, cost).
struct Lazy {
    base: std::rc::Rc<Vec<u32>>,
    i: u32,
    alt: u32,
    cost: u32,
}

impl Lazy {
    fn materialize(&self) -> Job {
        let mut c = self.base[..self.i as usize].to_vec();
        c.push(self.alt);
        (c, self.cost)
    }
}

fn children_lazy(o: &Outcome, prefix_len: usize, cost: u32, bound: Option<u32>, out: &mut Vec<Lazy>) {
    let base = std::rc::Rc::new(o.decisions.iter().map(|d| d.1 as u32).collect::<Vec<u32>>());
    // A violating execution was cut short; branch only near its beginning (a livelocked one has
    // tens of thousands of decisions).
    let end = if o.violation.is_some() { o.decisions.len().min(prefix_len + 256) } else { o.decisions.len() };
    // push in reverse so that a stack pops the earliest deviation first
    for i in (prefix_len..end).rev() {
        let n = o.decisions[i].0 as usize;
        for alt in (1..n).rev() {
            let k = o.costs[i][alt] as u32;
            if bound.map_or(true, |b| cost + k <= b) {
                out.push(Lazy { base: base.clone(), i: i as u32, alt: alt as u32, cost: cost + k });
            }
        }
    }
}

fn children(o: &Outcome, prefix_len: usize, cost: u32, bound: Option<u32>, out: &mut Vec<Job>) {
    let mut l = Vec::new();
    children_lazy(o, prefix_len, cost, bound, &mut l);
    out.extend(l.iter().map(|x| x.materialize()));
}

/// Abandoned (violating) executions leave parked threads behind; a worker that has collected this
/// many hands its remaining work back and exits so that a fresh process continues.
const RECYCLE_AFTER: u64 = 60;

/// Returns the jobs to requeue when the worker must be recycled.
fn explore_job(r: &dyn Runnable, job: Job, bound: Option<u32>, stats: &mut Stats, deadline: Instant, shared: &Shared, abandoned: &mut u64) -> Option<Vec<Job>> {
    let mut stack: Vec<Lazy> = Vec::new();
    let mut next: Option<Job> = Some(job);
    loop {
        let (p, c) = match next.take() {
            Some(j) => j,
            None => match stack.pop() {
                Some(l) => l.materialize(),
                None => return None,
            },
        };
        if Instant::now() > deadline || shared.stop.load(Ordering::Relaxed) != 0 {
            stats.capped = true;
            stats.unexplored_jobs += 1 + stack.len() as u64;
            return None;
        }
        let out = r.run(&p, false);
        stats.add(&out, p.len());
        if !out.new_shared.is_empty() {
            // the private-location set was too small: the whole scenario is restarted
            shared.stop.store(1, Ordering::SeqCst);
            return None;
        }
        children_lazy(&out, p.len(), c, bound, &mut stack);
        if out.violation.is_some() {
            *abandoned += 1;
            if *abandoned >= RECYCLE_AFTER {
                let mut back: Vec<Job> = Vec::new();
                if stack.len() > 50_000 {
                    stats.capped = true;
                    stats.unexplored_jobs += (stack.len() - 50_000) as u64;
                    stack.drain(..stack.len() - 50_000);
                }
                for l in stack.iter().rev() {
                    back.push(l.materialize());
                }
                return Some(back);
            }
        }
    }
}

fn read_all(fd: i32) -> String {
    let mut f = unsafe { <std::fs::File as std::os::unix::io::FromRawFd>::from_raw_fd(fd) };
    let mut s = String::new();
    let _ = f.read_to_string(&mut s);
    s
}

fn set_nonblock_off(_fd: i32) {}

/// Fork a child running `f`; returns (pid, read end of its result pipe).
fn fork_child<F: FnOnce(i32)>(f: F) -> (i32, i32) {
    let mut fds = [0i32; 2];
    unsafe {
        assert_eq!(0, libc::pipe(fds.as_mut_ptr()));
    }
    std::io::stdout().flush().ok();
    std::io::stderr().flush().ok();
    let pid = unsafe { libc::fork() };
    assert!(pid >= 0, "fork failed");
    if pid == 0 {
        unsafe {
            libc::close(fds[0]);
        }
        f(fds[1]);
        unsafe {
            libc::close(fds[1]);
            libc::_exit(0);
        }
    }
    unsafe {
        libc::close(fds[1]);
    }
    set_nonblock_off(fds[0]);
    (pid, fds[0])
}

fn write_fd(fd: i32, s: &str) {
    let mut off = 0;
    let b = s.as_bytes();
    while off < b.len() {
        let r = unsafe { libc::write(fd, b[off..].as_ptr() as *const _, b.len() - off) };
        if r <= 0 {
            break;
        }
        off += r as usize;
    }
}

struct ChildResult {
    status: i32,
    output: String,
    hung: bool,
    last_choices: Vec<u32>,
}

/// Wait for children, with a heartbeat watchdog on their progress areas.
fn supervise(children: &[(i32, i32, usize)], shared: &'static Shared, hang_secs: u64) -> Vec<ChildResult> {
    // Read pipes in threads (outputs may exceed the pipe buffer).
    let readers: Vec<std::thread::JoinHandle<String>> = children
        .iter()
        .map(|&(_, fd, _)| std::thread::spawn(move || read_all(fd)))
        .collect();
    let mut res: Vec<Option<(i32, bool)>> = vec![None; children.len()];
    let mut last_hb: Vec<(u64, Instant)> = children.iter().map(|_| (u64::MAX, Instant::now())).collect();
    loop {
        let mut all = true;
        for (i, &(pid, _, slot)) in children.iter().enumerate() {
            if res[i].is_some() {
                continue;
            }
            let mut st = 0i32;
            let r = unsafe { libc::waitpid(pid, &mut st, libc::WNOHANG) };
            if r == pid {
                res[i] = Some((st, false));
                continue;
            }
            all = false;
            let hb = shared.progress[slot].heartbeat.load(Ordering::Relaxed);
            if hb != last_hb[i].0 {
                last_hb[i] = (hb, Instant::now());
            } else if last_hb[i].1.elapsed() > Duration::from_secs(hang_secs) {
                unsafe {
                    libc::kill(pid, libc::SIGKILL);
                    libc::waitpid(pid, &mut st, 0);
                }
                res[i] = Some((st, true));
            }
        }
        if all {
            break;
        }
        std::thread::sleep(Duration::from_millis(20));
    }
    let outs: Vec<String> = readers.into_iter().map(|h| h.join().unwrap_or_default()).collect();
    children
        .iter()
        .enumerate()
        .map(|(i, &(_, _, slot))| {
            let p = &shared.progress[slot];
            let l = (p.len.load(Ordering::Relaxed) as usize).min(8192);
            ChildResult {
                status: res[i].unwrap().0,
                hung: res[i].unwrap().1,
                output: outs[i].clone(),
                last_choices: (0..l).map(|k| p.choices[k].load(Ordering::Relaxed)).collect(),
            }
        })
        .collect()
}

fn prepare_child(cfg: &Config, scenario: &str, pipe_fd: i32, shared: &'static Shared, slot: usize) {
    let c = Box::new(Ctx {
        property: cfg.property.clone(),
        scenario: scenario.to_string(),
        pipe_fd,
        replay_dir: replay_dir(),
    });
    CTX.store(Box::into_raw(c) as usize, Ordering::SeqCst);
    sched::PROGRESS.store(&shared.progress[slot] as *const Progress as usize, Ordering::SeqCst);
    // A panic in engine code on the controller is a machinery failure.
    std::panic::set_hook(Box::new(|info| {
        if std::env::var("VERIF_DEBUG_PANICS").is_ok() {
            eprintln!("panic (thread {}): {}", sched::tid(), info);
        }
    }));
}

pub fn evidence_dir() -> String {
    std::env::var("VERIF_EVIDENCE_DIR").unwrap_or_else(|_| "/verif/evidence".to_string())
}

pub fn replay_dir() -> String {
    std::env::var("VERIF_REPLAY_DIR").unwrap_or_else(|_| "/verif/replays".to_string())
}

fn interpret(results: Vec<ChildResult>, cfg: &Config, scenario: &str, stats: &mut Stats, violations: &mut Vec<Violation>, extra: &mut Vec<Value>) -> Result<(), String> {
    for r in results {
        for line in r.output.lines() {
            let v: Value = match serde_json::from_str(line) {
                Ok(v) => v,
                Err(_) => continue,
            };
            if v.get("stats").is_some() {
                let mut st = Stats::from_json(&v["stats"]);
                for x in st.violations.iter_mut() {
                    x.property = cfg.property.clone();
                    x.scenario = scenario.to_string();
                }
                stats.merge(&st);
            }
            if let Some(x) = v.get("extra") {
                extra.push(x.clone());
            }
        }
        let exited = libc::WIFEXITED(r.status);
        let code = if exited { libc::WEXITSTATUS(r.status) } else { -1 };
        if r.hung {
            let msg = "execution hung: a thread is blocked in a call the scheduler cannot see (blocking syscall or unhooked wait) while holding the run token".to_string();
            let path = write_replay(&cfg.property, scenario, &replay_dir(), &r.last_choices, &msg, &[], 0);
            violations.push(Violation { property: cfg.property.clone(), scenario: scenario.to_string(), message: msg, replay: path, cost: 0, choices: r.last_choices.clone(), log: vec![], log_json: vec![], shared: vec![] });
        } else if !exited {
            let sig = libc::WTERMSIG(r.status);
            let msg = format!("process died by signal {} during an execution (abort/crash inside library code or a signal handler frame, e.g. a panic crossing the handler)", sig);
            let path = write_replay(&cfg.property, scenario, &replay_dir(), &r.last_choices, &msg, &[], 0);
            violations.push(Violation { property: cfg.property.clone(), scenario: scenario.to_string(), message: msg, replay: path, cost: 0, choices: r.last_choices.clone(), log: vec![], log_json: vec![], shared: vec![] });
        } else if code != 0 {
            return Err(format!("worker exited with status {} (machinery failure); output: {}", code, r.output.chars().take(400).collect::<String>()));
        }
    }
    Ok(())
}

/// Explore `r` under `cfg`. All executions happen in forked children. With the private-location
/// reduction the exploration is restarted whenever an execution shows that a location treated as
/// private is touched by a second thread / frame kind; the final pass has verified in every
/// execution that each skipped location really was private.
pub fn explore(r: &dyn Runnable, cfg: &Config) -> Result<Summary, String> {
    let start = Instant::now();
    sched::SHARED_KEYS.lock().unwrap().clear();
    let mut restarts = 0;
    loop {
        let mut s = explore_once(r, cfg)?;
        if s.stats.new_shared.is_empty() || restarts >= 40 {
            if !s.stats.new_shared.is_empty() {
                return Err("private-location set did not converge after 40 restarts".into());
            }
            s.wall_s = start.elapsed().as_secs_f64();
            s.reduction_restarts = restarts;
            s.shared_locations = sched::SHARED_KEYS.lock().unwrap().len();
            return Ok(s);
        }
        let mut g = sched::SHARED_KEYS.lock().unwrap();
        for k in &s.stats.new_shared {
            if !g.contains(k) {
                g.push(*k);
            }
        }
        restarts += 1;
    }
}

fn explore_once(r: &dyn Runnable, cfg: &Config) -> Result<Summary, String> {
    let start = Instant::now();
    let deadline = start + cfg.max_wall;
    let name = r.name();
    let shared = map_shared();
    let nthreads = r.nthreads();
    let workers = cfg.workers.max(1).min(31);
    let mut stats = Stats::default();
    let mut violations: Vec<Violation> = Vec::new();
    let mut extra: Vec<Value> = Vec::new();

    // Phase 1: expansion in one child.
    let target_jobs = workers * 24;
    let bound = cfg.bound;
    let (pid, fd) = fork_child(|pfd| {
        prepare_child(cfg, &name, pfd, shared, 0);
        let mut st = Stats::default();
        let mut queue: std::collections::VecDeque<Job> = std::collections::VecDeque::new();
        queue.push_back((vec![], 0));
        let mut samples: Vec<Value> = Vec::new();
        let mut abandoned_exp = 0u64;
        while queue.len() < target_jobs && abandoned_exp < RECYCLE_AFTER {
            let (p, c) = match queue.pop_front() {
                Some(j) => j,
                None => break,
            };
            let keep = samples.len() < 3;
            let out = r.run(&p, keep);
            st.add(&out, p.len());
            if !out.new_shared.is_empty() {
                queue.clear();
                break;
            }
            if keep {
                samples.push(sample_json(&p, &out));
            }
            if out.violation.is_some() {
                abandoned_exp += 1;
            }
            let mut ch = Vec::new();
            children(&out, p.len(), c, bound, &mut ch);
            ch.reverse();
            for j in ch {
                queue.push_back(j);
            }
        }
        finalize_violations(&mut st);
        let jobs: Vec<Value> = queue.iter().map(|(p, c)| json!([p, c])).collect();
        let line = json!({"stats": st.to_json(), "extra": {"jobs": jobs, "samples": samples}}).to_string() + "\n";
        write_fd(pfd, &line);
    });
    let res = supervise(&[(pid, fd, 0)], shared, cfg.hang_secs);
    interpret(res, cfg, &name, &mut stats, &mut violations, &mut extra)?;
    let mut jobs: Vec<Job> = Vec::new();
    let mut samples: Vec<Value> = Vec::new();
    for x in &extra {
        if let Some(a) = x["jobs"].as_array() {
            for j in a {
                let p: Vec<u32> = j[0].as_array().unwrap().iter().map(|v| v.as_u64().unwrap() as u32).collect();
                jobs.push((p, j[1].as_u64().unwrap() as u32));
            }
        }
        if let Some(a) = x["samples"].as_array() {
            samples.extend(a.iter().cloned());
        }
    }
    extra.clear();

    // Phase 2: workers (re-spawned if some die in a crashing / hanging execution).
    shared.stop.store(0, Ordering::SeqCst);
    if !jobs.is_empty() && stats.new_shared.is_empty() {
        shared.next_job.store(0, Ordering::SeqCst);
        let mut rounds = 0;
        while (shared.next_job.load(Ordering::SeqCst) as usize) < jobs.len() && rounds < 400 {
            rounds += 1;
            let mut kids = Vec::new();
            let remaining = jobs.len() - shared.next_job.load(Ordering::SeqCst) as usize;
            for w in 0..workers.min(remaining) {
                let jobs_ref = &jobs;
                let (pid, fd) = fork_child(|pfd| {
                    prepare_child(cfg, &name, pfd, shared, w + 1);
                    let mut abandoned = 0u64;
                    loop {
                        let i = shared.next_job.fetch_add(1, Ordering::SeqCst) as usize;
                        if i >= jobs_ref.len() {
                            break;
                        }
                        let mut st = Stats::default();
                        let back = explore_job(r, jobs_ref[i].clone(), bound, &mut st, deadline, shared, &mut abandoned);
                        finalize_violations(&mut st);
                        let line = json!({"stats": st.to_json()}).to_string() + "\n";
                        write_fd(pfd, &line);
                        if std::env::var("VERIF_PROFILE").is_ok() {
                            let n = sched::PROF[5].load(Ordering::Relaxed).max(1);
                            eprintln!("PROFILE execs={} avg us: setup={} spawn+prime={} parallel={} join={} finish={}", n, sched::PROF[0].load(Ordering::Relaxed) / n / 1000, sched::PROF[1].load(Ordering::Relaxed) / n / 1000, sched::PROF[2].load(Ordering::Relaxed) / n / 1000, sched::PROF[3].load(Ordering::Relaxed) / n / 1000, sched::PROF[4].load(Ordering::Relaxed) / n / 1000);
                        }
                        if let Some(b) = back {
                            let jobs: Vec<Value> = b.iter().map(|(p, c)| json!([p, c])).collect();
                            let line = json!({"extra": {"requeue": jobs}}).to_string() + "\n";
                            write_fd(pfd, &line);
                            break;
                        }
                    }
                });
                kids.push((pid, fd, w + 1));
            }
            let round_len = jobs.len() as u64;
            let res = supervise(&kids, shared, cfg.hang_secs);
            if shared.next_job.load(Ordering::SeqCst) > round_len {
                shared.next_job.store(round_len, Ordering::SeqCst);
            }
            let before = violations.len();
            interpret(res, cfg, &name, &mut stats, &mut violations, &mut extra)?;
            if violations.len() > before {
                // a worker died mid-job: that job's subtree is not completely explored
                stats.capped = true;
                stats.unexplored_jobs += (violations.len() - before) as u64;
            }
            for x in extra.drain(..) {
                if let Some(a) = x["requeue"].as_array() {
                    for j in a {
                        let p: Vec<u32> = j[0].as_array().unwrap().iter().map(|v| v.as_u64().unwrap() as u32).collect();
                        jobs.push((p, j[1].as_u64().unwrap() as u32));
                    }
                }
            }
        }
    }
    unmap_shared(shared);
    violations.extend(stats.violations.drain(..));
    violations.sort_by(|a, b| (a.cost, &a.choices).cmp(&(b.cost, &b.choices)));
    // one (the cheapest) per class
    let mut seen = HashSet::new();
    let mut seen_s: Vec<String> = Vec::new();
    violations.retain(|v| {
        let c = class_of(&v.message);
        if seen_s.contains(&c) {
            false
        } else {
            seen_s.push(c);
            true
        }
    });
    let _ = &mut seen;
    seen.insert(0u8);
    let shared_now: Vec<(u32, u32)> = sched::SHARED_KEYS.lock().map(|g| g.clone()).unwrap_or_default();
    for v in violations.iter_mut() {
        v.shared = shared_now.clone();
        if v.replay.is_empty() {
            v.replay = write_replay_json(&cfg.property, &name, &replay_dir(), &v.choices, &v.message, &v.log_json, v.cost);
        }
    }
    Ok(Summary {
        scenario: name,
        bound,
        violating_executions: stats.violating_executions,
        stats,
        violations,
        wall_s: start.elapsed().as_secs_f64(),
        samples,
        nthreads,
        reduction_restarts: 0,
        shared_locations: 0,
    })
}

pub fn sample_json(p: &[u32], out: &Outcome) -> Value {
    let tags: Vec<String> = out
        .log
        .iter()
        .filter(|e| !e.tag.starts_with("op_"))
        .take(80)
        .map(|e| format!("T{}{}:{}", e.tid, if e.depth > 0 { "*" } else { "" }, e.tag))
        .collect();
    json!({"choice_prefix": p, "decisions": out.decisions.len(), "steps": out.steps, "events": tags})
}

// ---------------------------------------------------------------------------------------------
// Replay: run one choice vector in a child, twice, and compare.

fn log_digest(log: &[Ev]) -> u64 {
    let mut h: u64 = 0xcbf29ce484222325;
    for e in log {
        for b in e.tag.bytes() {
            h ^= b as u64;
            h = h.wrapping_mul(0x100000001b3);
        }
        h ^= ((e.tid as u64) << 8) | e.depth as u64;
        h = h.wrapping_mul(0x100000001b3);
    }
    h
}

/// Strip run-specific addresses from a message so that two runs can be compared.
pub fn normalize(msg: &str) -> String {
    let mut out = String::new();
    let b = msg.as_bytes();
    let mut i = 0;
    while i < b.len() {
        if b[i] == b'0' && i + 1 < b.len() && b[i + 1] == b'x' {
            out.push_str("0x_");
            i += 2;
            while i < b.len() && (b[i] as char).is_ascii_hexdigit() {
                i += 1;
            }
        } else if (b[i] as char).is_ascii_digit() {
            let st = i;
            while i < b.len() && (b[i] as char).is_ascii_digit() {
                i += 1;
            }
            if i - st >= 9 { out.push('#'); } else { out.push_str(&msg[st..i]); }
        } else {
            out.push(b[i] as char);
            i += 1;
        }
    }
    out
}

/// Returns (violation message or None, log digest) of one run in a child.
pub fn replay_once(r: &dyn Runnable, choices: &[u32], hang_secs: u64) -> Result<(Option<String>, u64), String> {
    let shared = map_shared();
    let (pid, fd) = fork_child(|pfd| {
        sched::PROGRESS.store(&shared.progress[0] as *const Progress as usize, Ordering::SeqCst);
        let out = r.run(choices, true);
        let line = match &out.violation {
            None => json!({"ok": true, "log_digest": log_digest(&out.log), "events": out.log.len()}),
            Some(m) => json!({"violation": normalize(m), "log_digest": log_digest(&out.log), "events": out.log.len()}),
        }.to_string() + "\n";
        write_fd(pfd, &line);
    });
    let res = supervise(&[(pid, fd, 0)], shared, hang_secs);
    unmap_shared(shared);
    let r0 = &res[0];
    if r0.hung {
        return Ok((Some("execution hung".into()), 0));
    }
    if !libc::WIFEXITED(r0.status) {
        return Ok((Some(format!("process died by signal {}", libc::WTERMSIG(r0.status))), 0));
    }
    for line in r0.output.lines() {
        if let Ok(v) = serde_json::from_str::<Value>(line) {
            let d = v["log_digest"].as_u64().unwrap_or(0);
            if let Some(m) = v["violation"].as_str() {
                return Ok((Some(m.to_string()), d));
            }
            if v["ok"].as_bool() == Some(true) {
                return Ok((None, d));
            }
        }
    }
    Err(format!("replay child gave no result (status {}): {}", r0.status, r0.output))
}

pub static _UNUSED: AtomicU64 = AtomicU64::new(0);
