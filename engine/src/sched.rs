//! Engine A runtime: a controlled scheduler over the real code.
//!
//! Model threads are real OS threads; exactly one holds the run token. Every hooked operation of
//! the library (atomics, mutexes, yields, named syscall points) is a scheduling point at which the
//! token holder consults the choice vector. Signals are delivered by the kernel: `raise()` is
//! called by the token holder on the thread that is to receive the signal.
#![allow(clippy::all)]

use signal_hook_registry::verif as shim;
use std::any::Any;
use std::cell::Cell;
use std::collections::HashMap;
use std::sync::atomic::{AtomicU32, AtomicU64, AtomicUsize, Ordering};

pub const MAX_THREADS: usize = 8;
pub const NONE: usize = usize::MAX;

thread_local! {
    static TID: Cell<usize> = const { Cell::new(NONE) };
    static IN_ENGINE: Cell<bool> = const { Cell::new(false) };
    static DEPTH: Cell<u32> = const { Cell::new(0) };
}

#[inline]
pub fn tid() -> usize {
    TID.with(|t| t.get())
}
#[inline]
pub fn handler_depth() -> u32 {
    DEPTH.with(|d| d.get())
}
#[inline]
pub fn in_engine() -> bool {
    IN_ENGINE.with(|d| d.get())
}

/// RAII marker: code between construction and drop is engine/harness code (not library code).
pub struct EngineGuard(bool);
impl EngineGuard {
    #[inline]
    pub fn enter() -> Self {
        let prev = IN_ENGINE.with(|c| c.replace(true));
        EngineGuard(prev)
    }
}
impl Drop for EngineGuard {
    #[inline]
    fn drop(&mut self) {
        IN_ENGINE.with(|c| c.set(self.0));
    }
}

// ---------------------------------------------------------------------------------------------
// Allocation monitor (C03): allocations by library code inside a signal handler frame.

pub static ALLOC_IN_HANDLER: AtomicU32 = AtomicU32::new(0);
pub static ALLOC_IN_HANDLER_KIND: AtomicU32 = AtomicU32::new(0);

pub const MAX_SETUP_ALLOCS: usize = 16384;
pub static RECORD_ALLOCS: AtomicU32 = AtomicU32::new(0);
pub static SETUP_N: AtomicUsize = AtomicUsize::new(0);
pub static SETUP_ALLOCS: [[AtomicUsize; 2]; MAX_SETUP_ALLOCS] = {
    const Z: AtomicUsize = AtomicUsize::new(0);
    const P: [AtomicUsize; 2] = [Z; 2];
    [P; MAX_SETUP_ALLOCS]
};

#[inline]
pub fn note_alloc(kind: u32, ptr: usize, size: usize) {
    // Called from the global allocator: must not allocate.
    let t = TID.try_with(|t| t.get()).unwrap_or(NONE);
    if t == NONE {
        return;
    }
    if t == 0 && RECORD_ALLOCS.load(Ordering::Relaxed) != 0 && !IN_ENGINE.try_with(|d| d.get()).unwrap_or(true) {
        if kind == 0 {
            let i = SETUP_N.fetch_add(1, Ordering::Relaxed);
            if i < MAX_SETUP_ALLOCS {
                SETUP_ALLOCS[i][0].store(ptr, Ordering::Relaxed);
                SETUP_ALLOCS[i][1].store(size, Ordering::Relaxed);
            }
        } else {
            // freed during setup: forget the newest live record of that pointer
            let n = SETUP_N.load(Ordering::Relaxed).min(MAX_SETUP_ALLOCS);
            let mut i = n;
            while i > 0 {
                i -= 1;
                if SETUP_ALLOCS[i][0].load(Ordering::Relaxed) == ptr {
                    SETUP_ALLOCS[i][0].store(0, Ordering::Relaxed);
                    break;
                }
            }
        }
    }
    if have_exec() {
        // which dropped atomics lie in memory that is gone (must not allocate here)
        let e = exec();
        if kind == 1 && !e.dead_locs.is_empty() {
            let mut i = 0;
            while i < e.dead_locs.len() {
                let a = e.dead_locs[i];
                if a >= ptr && a < ptr + size {
                    e.dead_locs.swap_remove(i);
                    if e.freed_locs.len() < e.freed_locs.capacity() {
                        e.freed_locs.push(a);
                    }
                } else {
                    i += 1;
                }
            }
        } else if kind == 0 && !(e.freed_locs.is_empty() && e.dead_locs.is_empty()) {
            e.freed_locs.retain(|a| !(*a >= ptr && *a < ptr + size));
            e.dead_locs.retain(|a| !(*a >= ptr && *a < ptr + size));
        }
    }
    let d = DEPTH.try_with(|d| d.get()).unwrap_or(0);
    let ie = IN_ENGINE.try_with(|d| d.get()).unwrap_or(true);
    if kind == 1 && !ie && have_exec() {
        // The real release of a tracked snapshot, wherever the code does it: if no snapshot_free
        // event announced it, the release itself is the event.
        let e = exec();
        if e.live_snapshots.contains_key(&(ptr as u64)) {
            let _g = EngineGuard::enter();
            e.live_snapshots.remove(&(ptr as u64));
            e.synth_freed.push(ptr as u64);
            e.push_ev("snapshot_free", ptr as u64, 2);
            exec().access(ptr as u64, true, "snapshot_free");
        }
    }
    if d > 0 && TRACE.load(Ordering::Relaxed) == 2 {
        let m = if kind == 1 { b"DEALLOC-IN-HANDLER\n" as &[u8] } else { b"ALLOC-IN-HANDLER\n" as &[u8] };
        if !ie { unsafe { libc::write(2, m.as_ptr() as *const _, m.len()); } }
    }
    if d > 0 && !ie {
        ALLOC_IN_HANDLER.fetch_add(1, Ordering::Relaxed);
        ALLOC_IN_HANDLER_KIND.store(kind, Ordering::Relaxed);
    }
}

// ---------------------------------------------------------------------------------------------
// Vector clocks

pub type VClock = [u32; MAX_THREADS];

#[inline]
fn vc_join(a: &mut VClock, b: &VClock) {
    for i in 0..MAX_THREADS {
        if b[i] > a[i] {
            a[i] = b[i];
        }
    }
}

// ---------------------------------------------------------------------------------------------
// Log

#[derive(Clone, Debug)]
pub struct Ev {
    pub step: u64,
    pub tid: u8,
    pub depth: u8,
    pub tag: &'static str,
    pub a: u64,
    pub b: u64,
    /// The acting thread's clock at the event (own component = this event's counter).
    pub clock: VClock,
    /// The acting thread's own step count / failed compare-exchange count so far.
    pub own: u32,
    pub cf: u32,
}

// ---------------------------------------------------------------------------------------------
// Memory model state

#[derive(Clone)]
struct StoreRec {
    value: u64,
    release: VClock,
    sc: bool,
}

struct Loc {
    width: u8,
    stores: Vec<StoreRec>,
    /// Per thread: (own counter at observation, store index) in increasing order.
    obs: [Vec<(u32, u32)>; MAX_THREADS],
    last_sc: u32,
}

struct Region {
    last_write: Option<(u8, u32, &'static str)>,
    reads: [u32; MAX_THREADS],
    read_tag: [&'static str; MAX_THREADS],
}

// ---------------------------------------------------------------------------------------------
// Thread slots (token passing)

#[repr(align(128))]
struct Slot {
    go: AtomicU32,
    sleeping: AtomicU32,
}

static SLOTS: [Slot; MAX_THREADS + 1] = {
    const S: Slot = Slot {
        go: AtomicU32::new(0),
        sleeping: AtomicU32::new(0),
    };
    [S; MAX_THREADS + 1]
};
const CONTROLLER: usize = MAX_THREADS;

fn futex_wait(w: &AtomicU32, val: u32) {
    unsafe {
        libc::syscall(
            libc::SYS_futex,
            w as *const AtomicU32,
            libc::FUTEX_WAIT | libc::FUTEX_PRIVATE_FLAG,
            val,
            std::ptr::null::<libc::timespec>(),
        );
    }
}
fn futex_wake(w: &AtomicU32) {
    unsafe {
        libc::syscall(
            libc::SYS_futex,
            w as *const AtomicU32,
            libc::FUTEX_WAKE | libc::FUTEX_PRIVATE_FLAG,
            1,
        );
    }
}

pub static TRACE: AtomicU32 = AtomicU32::new(0);
pub static SPIN_LIMIT: AtomicU32 = AtomicU32::new(4000);

fn wait_go(i: usize) {
    let s = &SLOTS[i];
    let mut spins = 0u32;
    let lim = SPIN_LIMIT.load(Ordering::Relaxed);
    loop {
        if s.go.load(Ordering::Acquire) != 0 {
            if i != CONTROLLER && EPOCH.load(Ordering::SeqCst) != MY_EPOCH.with(|t| t.get()) {
                // This execution was abandoned: retire.
                PARKED.fetch_add(1, Ordering::SeqCst);
                park_forever();
            }
            break;
        }
        spins += 1;
        if spins < lim {
            std::hint::spin_loop();
        } else {
            s.sleeping.store(1, Ordering::SeqCst);
            if s.go.load(Ordering::SeqCst) == 0 {
                futex_wait(&s.go, 0);
            }
            s.sleeping.store(0, Ordering::SeqCst);
        }
    }
    s.go.store(0, Ordering::Relaxed);
}

fn give(i: usize) {
    let s = &SLOTS[i];
    s.go.store(1, Ordering::SeqCst);
    if s.sleeping.load(Ordering::SeqCst) != 0 {
        futex_wake(&s.go);
    }
}

// ---------------------------------------------------------------------------------------------

#[derive(Clone, Copy, PartialEq, Debug)]
pub enum Pending {
    Start,
    Op,
    MutexLock(usize),
    BlockingRead(i32),
    Quiescence,
    Finished,
}

pub struct ThreadSt {
    pub name: &'static str,
    pub pending: Pending,
    pub yielded: bool,
    pub clock: VClock,
    pub steps: u64,
    pub handler_steps: u64,
    pub nest_signals: Vec<i32>,
    pub max_nest: u32,
    /// nested arrivals carry the payload `nest_value + n` (thread-directed sigqueue) if non-zero
    pub nest_value: usize,
    pub nested_done: u32,
    pub active_sigs: Vec<i32>,
    /// Directive for a thread that is being given the token: deliver this signal first.
    pub deliver: Option<i32>,
    pub last_site: (&'static str, u32),
    pub last_kind: u8,
    pub cas_fails: u32,
    /// global step count when this thread last performed a step
    pub last_run: u64,
    /// global step count at this thread's previous yield
    pub last_yield: u64,
    /// fair scheduling (Musuvathi-Qadeer): threads that must take a step before this one may run
    /// again (it yielded twice without them having been scheduled although they could have been)
    pub must_precede: u32,
}

#[derive(Clone, Copy, PartialEq, Debug)]
pub enum Phase {
    Setup,
    /// Threads run, one after the other, up to their first scheduling point.
    Priming,
    Parallel,
    Finish,
}

#[derive(Clone, Copy, Debug, PartialEq, Eq)]
pub enum AltKind {
    Run(u8),
    Signal(u8, i32),
    Read(u32),
    Spurious(bool),
}

pub struct Decision {
    pub n: u16,
    pub chosen: u16,
    pub cost_off: u32,
}

#[derive(Clone, Debug, Default)]
pub struct Opts {
    pub stale_reads: bool,
    pub stale_depth: usize,
    pub max_spurious: u32,
    pub horizon: u64,
    /// record every atomic op in the log (for replays / samples)
    pub log_ops: bool,
    /// record the atomic ops executed inside signal handler frames
    pub log_handler_ops: bool,
    /// operations on heap locations that only one thread (frame kind) ever touches are no
    /// scheduling points; verified in every execution, the explorer restarts when the set grows
    pub reduce: bool,
    /// the harness's own actions wait inside handler frames on purpose (relay scenarios)
    pub no_discipline: bool,
    /// nested arrivals on model thread 1 are queued with payload base + n (0 = plain raise)
    pub nest_value_t1: usize,
    /// also offer a scheduling decision right *after* every publishing operation (successful RMW /
    /// store with release semantics), before the code that follows it runs: an access through a
    /// reference obtained earlier ("publish, then touch") becomes explorable
    pub post_points: bool,
    /// do not stop an execution at a data race (the check at hand judges what happens next)
    pub no_race_check: bool,
    /// the start of every thread body is a scheduling point of its own (for bodies that do visible
    /// things - dropping an Arc, closing a descriptor - before their first hooked operation)
    pub start_points: bool,
    /// endurance runs: when only yielding threads can move they are re-run this many times (instead
    /// of the 64 after which a livelock is declared); then the thread waiting in
    /// `await_quiescence` - if any - is let go and the count starts again. 0 = off.
    pub endurance: u64,
}

pub trait Monitor {
    /// Called for every event as it happens (token holder). Return Err to report a violation.
    fn on_event(&mut self, ex: &Exec, ev: &Ev) -> Result<(), String>;
}

pub struct Exec {
    pub phase: Phase,
    pub opts: Opts,
    pub threads: Vec<ThreadSt>,
    pub running: usize,
    pub steps: u64,
    pub replay: Vec<u32>,
    pub pos: usize,
    pub decisions: Vec<Decision>,
    pub costs: Vec<u8>,
    pub kinds: Vec<AltKind>,
    pub log: Vec<Ev>,
    locs: HashMap<usize, Loc>,
    regions: HashMap<u64, Region>,
    mutex_owner: HashMap<usize, usize>,
    mutex_clock: HashMap<usize, VClock>,
    pub spurious_used: u32,
    pub forced_reruns: u32,
    pub diverged: u32,
    pub last_forced: usize,
    pub panics: Vec<(usize, String)>,
    pub monitor: Option<Box<dyn Monitor>>,
    pub violation: Option<String>,
    pub abandoned: bool,
    pub switches: u64,
    pub signals_delivered: u64,
    pub stale_taken: u64,
    /// shim atomics that have been dropped / dropped and their heap block released (no reallocation since)
    pub dead_locs: Vec<usize>,
    pub freed_locs: Vec<usize>,
    /// how often the write barrier took its second generation switch (event `barrier_reflip`)
    pub reflips: u64,
    pub interleaved: bool,
    /// events the default access mapping treats as racy-checkable
    pub race_check: bool,
    /// setup allocations sorted by address: (start, end, index)
    pub named: Vec<(usize, usize, u32)>,
    /// accessor identity per named location ((tid << 1) | in-handler)
    pub accessors: HashMap<(u32, u32), u16>,
    pub new_shared: Vec<(u32, u32)>,
    pub skipped_ops: u64,
    /// snapshots announced by snapshot_alloc and not yet released
    pub live_snapshots: HashMap<u64, ()>,
    /// snapshots whose release was observed through the allocator before any event announced it
    pub synth_freed: Vec<u64>,
    /// report locks / yields / blocking reads inside handler frames (C03)
    pub handler_discipline: bool,
    pub user: Option<Box<dyn Any>>,
}

static mut EXEC: *mut Exec = std::ptr::null_mut();

#[inline]
pub fn exec() -> &'static mut Exec {
    unsafe { &mut *EXEC }
}
#[inline]
pub fn have_exec() -> bool {
    unsafe { !EXEC.is_null() }
}

/// What to do when a violation is detected mid-execution (set by the explorer / replayer).
/// Shared progress area (set by the worker): decisions are mirrored there for post-mortems.
pub static PROGRESS: AtomicUsize = AtomicUsize::new(0);

#[repr(C)]
pub struct Progress {
    pub heartbeat: AtomicU64,
    pub executions: AtomicU64,
    pub len: AtomicU32,
    pub choices: [AtomicU32; 8192],
}

fn progress() -> Option<&'static Progress> {
    let p = PROGRESS.load(Ordering::Relaxed);
    if p == 0 {
        None
    } else {
        Some(unsafe { &*(p as *const Progress) })
    }
}

/// Report a violation from anywhere in harness/engine code running under the token. On a model
/// thread the execution is abandoned (the thread parks forever; the controller retires the others);
/// on the controller it unwinds to `run_one`.
/// Like `fail`, but usable from destructors: on the controller, while already unwinding, the
/// violation is only recorded.
pub fn fail_soft(msg: String) {
    let t = tid();
    if (t == 0 || t == NONE) && std::thread::panicking() {
        let e = exec();
        if e.violation.is_none() {
            e.violation = Some(msg);
        }
        return;
    }
    fail(msg)
}

pub fn fail(msg: String) -> ! {
    let _g = EngineGuard::enter();
    let e = exec();
    if e.violation.is_none() {
        e.violation = Some(msg);
    }
    let t = tid();
    if t == 0 || t == NONE {
        std::panic::resume_unwind(Box::new(ViolationUnwind));
    }
    e.abandoned = true;
    PARKED.fetch_add(1, Ordering::SeqCst);
    give(CONTROLLER);
    park_forever();
}

static EPOCH: AtomicU64 = AtomicU64::new(1);
static EXITED: AtomicU64 = AtomicU64::new(0);
static PARKED: AtomicU64 = AtomicU64::new(0);
static NEVER: AtomicU32 = AtomicU32::new(0);
thread_local! { static MY_EPOCH: Cell<u64> = const { Cell::new(0) }; }

fn park_forever() -> ! {
    loop {
        futex_wait(&NEVER, 0);
    }
}

pub static SHARED_KEYS: std::sync::Mutex<Vec<(u32, u32)>> = std::sync::Mutex::new(Vec::new());

fn is_shared(k: (u32, u32)) -> bool {
    SHARED_KEYS.lock().map(|v| v.contains(&k)).unwrap_or(true)
}

impl Exec {
    /// Stable name of a heap location: (index of the setup allocation containing it, offset).
    pub fn key_of(&self, addr: usize) -> Option<(u32, u32)> {
        let v = &self.named;
        if v.is_empty() {
            return None;
        }
        let i = v.partition_point(|x| x.0 <= addr);
        if i == 0 {
            return None;
        }
        let (s, e, idx) = v[i - 1];
        if addr < e {
            Some((idx, (addr - s) as u32))
        } else {
            None
        }
    }

    fn new(opts: Opts, replay: Vec<u32>) -> Exec {
        Exec {
            phase: Phase::Setup,
            opts,
            threads: Vec::new(),
            running: 0,
            steps: 0,
            replay,
            pos: 0,
            decisions: Vec::new(),
            costs: Vec::new(),
            kinds: Vec::new(),
            log: Vec::new(),
            locs: HashMap::new(),
            regions: HashMap::new(),
            mutex_owner: HashMap::new(),
            mutex_clock: HashMap::new(),
            spurious_used: 0,
            forced_reruns: 0,
            diverged: 0,
            last_forced: NONE,
            panics: Vec::new(),
            monitor: None,
            violation: None,
            abandoned: false,
            switches: 0,
            signals_delivered: 0,
            stale_taken: 0,
            dead_locs: Vec::with_capacity(1024),
            freed_locs: Vec::with_capacity(1024),
            reflips: 0,
            interleaved: false,
            race_check: true,
            named: Vec::new(),
            accessors: HashMap::new(),
            new_shared: Vec::new(),
            skipped_ops: 0,
            live_snapshots: HashMap::new(),
            synth_freed: Vec::new(),
            handler_discipline: true,
            user: None,
        }
    }

    pub fn costs_of(&self, i: usize) -> &[u8] {
        let d = &self.decisions[i];
        &self.costs[d.cost_off as usize..d.cost_off as usize + d.n as usize]
    }
    pub fn kinds_of(&self, i: usize) -> &[AltKind] {
        let d = &self.decisions[i];
        &self.kinds[d.cost_off as usize..d.cost_off as usize + d.n as usize]
    }

    /// A decision among `alts` (kind, cost); alternative 0 is the default.
    fn decide(&mut self, alts: &[(AltKind, u8)]) -> usize {
        if alts.len() == 1 {
            return 0;
        }
        let c = if self.pos < self.replay.len() {
            let c = self.replay[self.pos] as usize;
            if c >= alts.len() {
                // The program behaved differently under the same schedule prefix (state that
                // survives from one execution to the next, or real nondeterminism). Counted and
                // reported; the execution continues on the default alternative.
                self.diverged += 1;
                0
            } else {
                c
            }
        } else {
            0
        };
        let off = self.costs.len() as u32;
        for a in alts {
            self.costs.push(a.1);
            self.kinds.push(a.0);
        }
        self.decisions.push(Decision {
            n: alts.len() as u16,
            chosen: c as u16,
            cost_off: off,
        });
        if let Some(p) = progress() {
            let l = self.pos;
            if l < 8192 {
                p.choices[l].store(c as u32, Ordering::Relaxed);
                p.len.store(l as u32 + 1, Ordering::Relaxed);
            }
        }
        self.pos += 1;
        c
    }

    fn enabled(&self, x: usize) -> bool {
        let t = &self.threads[x];
        match t.pending {
            Pending::Finished => false,
            Pending::Quiescence => false, // handled separately
            Pending::MutexLock(a) => !self.mutex_owner.contains_key(&a),
            Pending::BlockingRead(fd) => poll_readable(fd),
            Pending::Start | Pending::Op => true,
        }
    }

    pub fn push_ev(&mut self, tag: &'static str, a: u64, b: u64) {
        let t = tid();
        let (clock, depth, own, cf) = if t != NONE && t < self.threads.len() {
            (self.threads[t].clock, handler_depth() as u8, self.threads[t].steps as u32, self.threads[t].cas_fails)
        } else {
            ([0; MAX_THREADS], 0, 0, 0)
        };
        let ev = Ev {
            step: self.steps,
            tid: t as u8,
            depth,
            tag,
            a,
            b,
            clock,
            own,
            cf,
        };
        if TRACE.load(Ordering::Relaxed) != 0 {
            eprintln!("TRACE step={} T{} d{} {} {:#x} {:#x} pending={:?}", self.steps, t as i64, depth, tag, a, b, self.threads.iter().map(|x| x.pending).collect::<Vec<_>>());
        }
        if depth > 0 && self.handler_discipline {
            let bad = match tag {
                "mutex_lock" => Some("acquires a lock"),
                "yield" | "spin_hint" => Some("yields / spins waiting for another thread"),
                "blocking_read" => Some("performs a blocking read"),
                _ => None,
            };
            if let Some(b) = bad {
                self.log.push(ev);
                fail(format!("C03: code running inside a signal handler frame {}", b));
            }
        }
        if self.log.len() as u64 > 2_000_000 + 8 * self.opts.endurance {
            self.log.push(ev);
            fail("livelock: more than 2 million events in one execution (a loop that makes no scheduling step)".into());
        }
        if let Some(mut m) = self.monitor.take() {
            let r = m.on_event(self, &ev);
            self.monitor = Some(m);
            if let Err(msg) = r {
                self.log.push(ev);
                fail_soft(msg);
                return;
            }
        }
        self.log.push(ev);
    }

    fn tick(&mut self, t: usize) {
        self.threads[t].clock[t] += 1;
    }

    /// Non-atomic access to a region by the current thread; reports unordered conflicts.
    pub fn access(&mut self, region: u64, write: bool, tag: &'static str) {
        let t = tid();
        if t == NONE || t >= self.threads.len() {
            return;
        }
        let clock = self.threads[t].clock;
        let r = self.regions.entry(region).or_insert_with(|| Region {
            last_write: None,
            reads: [0; MAX_THREADS],
            read_tag: [""; MAX_THREADS],
        });
        let mut race: Option<String> = None;
        if let Some((wt, wc, wtag)) = r.last_write {
            if wt as usize != t && clock[wt as usize] < wc {
                race = Some(format!(
                    "data race: {} by thread {} is not ordered after {} by thread {} (region {:#x})",
                    tag, t, wtag, wt, region
                ));
            }
        }
        if write {
            for u in 0..MAX_THREADS {
                if u != t && r.reads[u] != 0 && clock[u] < r.reads[u] {
                    race = Some(format!(
                        "data race: {} by thread {} is not ordered after {} by thread {} (region {:#x})",
                        tag, t, r.read_tag[u], u, region
                    ));
                }
            }
            r.last_write = Some((t as u8, clock[t], tag));
            r.reads = [0; MAX_THREADS];
        } else {
            r.reads[t] = clock[t];
            r.read_tag[t] = tag;
        }
        self.tick(t);
        if let Some(m) = race {
            if self.race_check {
                fail_soft(m);
            }
        }
    }

    pub fn forget_region(&mut self, region: u64) {
        self.regions.remove(&region);
    }
}

fn poll_readable(fd: i32) -> bool {
    let mut p = libc::pollfd {
        fd,
        events: libc::POLLIN,
        revents: 0,
    };
    let r = unsafe { libc::poll(&mut p, 1, 0) };
    r > 0 && (p.revents & (libc::POLLIN | libc::POLLHUP | libc::POLLERR | libc::POLLNVAL)) != 0
}

fn read_mem(addr: usize, width: u8) -> u64 {
    unsafe {
        match width {
            1 => std::ptr::read_volatile(addr as *const u8) as u64,
            2 => std::ptr::read_volatile(addr as *const u16) as u64,
            4 => std::ptr::read_volatile(addr as *const u32) as u64,
            _ => std::ptr::read_volatile(addr as *const u64),
        }
    }
}

fn mask(width: u8) -> u64 {
    match width {
        1 => 0xff,
        2 => 0xffff,
        4 => 0xffff_ffff,
        _ => u64::MAX,
    }
}

// ---------------------------------------------------------------------------------------------
// Scheduling

/// Queued deliveries carry si_code SI_TIMER instead of SI_QUEUE while this is set (per scenario, in setup).
pub static QUEUE_AS_TIMER: std::sync::atomic::AtomicBool = std::sync::atomic::AtomicBool::new(false);

/// The pattern queued deliveries carry in bytes 32..48 of their record.
pub fn payload_pattern(v: u64) -> u64 {
    v.wrapping_mul(0x9e3779b97f4a7c15) ^ 0xa5a5_5a5a_c3c3_3c3c
}

fn do_raise(t: usize, sig: i32) {
    do_raise_with(t, sig, None)
}

fn do_nested_raise(t: usize, sig: i32) {
    let e = exec();
    let base = e.threads[t].nest_value;
    if base != 0 {
        let v = base + e.threads[t].nested_done as usize;
        do_raise_with(t, sig, Some(v))
    } else {
        do_raise_with(t, sig, None)
    }
}

fn do_raise_with(t: usize, sig: i32, value: Option<usize>) {
    let e = exec();
    // The interrupted operation stays pending while the handler frame runs.
    let saved_pending = e.threads[t].pending;
    let saved_yielded = e.threads[t].yielded;
    let saved_site = e.threads[t].last_site;
    e.threads[t].yielded = false;
    e.threads[t].active_sigs.push(sig);
    e.signals_delivered += 1;
    e.push_ev("deliver_begin", sig as u64, value.unwrap_or(0) as u64);
    let steps0 = e.threads[t].steps;
    let sw0 = e.switches;
    DEPTH.with(|d| d.set(d.get() + 1));
    let prev = IN_ENGINE.with(|c| c.replace(false));
    unsafe {
        match value {
            None => {
                libc::raise(sig);
            }
            Some(v) => {
                // what pthread_sigqueue does (rt_tgsigqueueinfo to the calling thread, SI_QUEUE, own pid / uid,
                // the payload) - plus a pattern in the 16 bytes of the record that this layout leaves unused
                // but the kernel still carries: a copy of the record that is cut short shows
                let mut info: [u64; 16] = [0; 16];
                let bytes = info.as_mut_ptr() as *mut u8;
                *(bytes as *mut i32) = sig;
                // SI_QUEUE - or, for scenarios that say so, SI_TIMER: a record of a kind that names no sender
                *(bytes.add(8) as *mut i32) = if QUEUE_AS_TIMER.load(Ordering::SeqCst) { -2 } else { -1 };
                *(bytes.add(16) as *mut i32) = libc::getpid();
                *(bytes.add(20) as *mut u32) = libc::getuid();
                *(bytes.add(24) as *mut u64) = v as u64;
                *(bytes.add(32) as *mut u64) = payload_pattern(v as u64);
                *(bytes.add(40) as *mut u64) = !payload_pattern(v as u64);
                libc::syscall(libc::SYS_rt_tgsigqueueinfo, libc::getpid(), libc::syscall(libc::SYS_gettid) as libc::pid_t, sig, info.as_ptr());
            }
        }
    }
    IN_ENGINE.with(|c| c.set(prev));
    DEPTH.with(|d| d.set(d.get() - 1));
    check_alloc_flag();
    let e = exec();
    e.threads[t].active_sigs.pop();
    e.threads[t].pending = saved_pending;
    e.threads[t].yielded = saved_yielded;
    e.threads[t].last_site = saved_site;
    let own = e.threads[t].steps - steps0;
    let solo = (e.switches == sw0) as u64;
    e.push_ev("deliver_end", sig as u64, (own << 1) | solo);
}

/// The calling thread `t` holds the token and has announced `threads[t].pending`. Returns when
/// `t` is to go ahead with it.
fn schedule(t: usize) {
    if exec().phase == Phase::Priming {
        // Park at the first scheduling point; the controller primes the next thread.
        let fin = exec().threads[t].pending == Pending::Finished;
        give(CONTROLLER);
        if fin {
            return;
        }
        wait_go(t);
        if exec().threads[t].deliver.is_some() {
            let s = exec().threads[t].deliver.take().unwrap();
            exec().threads[t].nested_done += 1;
            do_nested_raise(t, s);
        } else {
            return;
        }
    }
    loop {
        let e = exec();
        if e.steps > e.opts.horizon {
            let in_handler = handler_depth() > 0 && e.handler_discipline;
            fail(format!(
                "{}: step horizon {} exceeded (thread {} '{}' at {}:{}{})",
                if in_handler { "C03" } else { "livelock" },
                e.opts.horizon, t, e.threads[t].name, e.threads[t].last_site.0, e.threads[t].last_site.1,
                if in_handler { "; the thread is inside a signal handler frame that does not finish" } else { "" }
            ));
        }
        let n = e.threads.len();
        let mut alts: Vec<(AltKind, u8)> = Vec::with_capacity(8);
        // threads that could take a step if chosen (ignoring fairness constraints)
        let mut live_mask: u32 = 0;
        for x in 1..n {
            if e.enabled(x) {
                live_mask |= 1 << x;
            }
        }
        let fair = |e: &Exec, x: usize| e.threads[x].must_precede & live_mask & !(1u32 << x) == 0;
        let t_enabled = e.enabled(t) && !e.threads[t].yielded && fair(e, t);
        // Enabled, non-yielded threads: the running one first.
        if t_enabled {
            alts.push((AltKind::Run(t as u8), 0));
        }
        // The others: least recently run first (so that two threads yielding to each other cannot
        // starve a third one under the default choice), ties by ascending id.
        let mut others: Vec<usize> = (1..n).filter(|&x| x != t && e.enabled(x) && !e.threads[x].yielded && fair(e, x)).collect();
        others.sort_by_key(|&x| (e.threads[x].last_run, x));
        for x in others {
            alts.push((AltKind::Run(x as u8), if t_enabled { 1 } else { 0 }));
        }
        if alts.is_empty() {
            // Nobody can move except possibly yielded threads / the quiescence waiter.
            let mut forced: Vec<usize> = Vec::new();
            if e.enabled(t) {
                forced.push(t);
            }
            for x in 1..n {
                if x != t && e.enabled(x) {
                    forced.push(x);
                }
            }
            if !forced.is_empty() {
                // every enabled thread is held back by a yield or a fairness constraint: drop them
                for x in 1..n {
                    e.threads[x].must_precede = 0;
                }
                e.forced_reruns += 1;
                e.last_forced = forced[0];
                let limit = if e.opts.endurance > 0 { e.opts.endurance } else { 64 };
                let waiter = (1..n).find(|&x| e.threads[x].pending == Pending::Quiescence);
                if e.forced_reruns as u64 > limit && e.opts.endurance > 0 && waiter.is_some() {
                    // the spinners have been given their chance: what they wait for happens now
                    e.forced_reruns = 0;
                    forced.clear();
                    forced.push(waiter.unwrap());
                } else if e.forced_reruns as u64 > limit {
                    let x = forced[0];
                    fail(format!(
                        "livelock: only yielding threads remain runnable and none makes progress (thread {} '{}' spinning at {}:{})",
                        x, e.threads[x].name, e.threads[x].last_site.0, e.threads[x].last_site.1
                    ));
                }
                for x in forced {
                    alts.push((AltKind::Run(x as u8), 0));
                }
            } else if let Some(q) = (1..n).find(|&x| e.threads[x].pending == Pending::Quiescence) {
                alts.push((AltKind::Run(q as u8), 0));
            }
        }
        // Signal arrivals: on any unfinished thread that lists nestable signals.
        for x in 1..n {
            let th = &e.threads[x];
            if th.pending == Pending::Finished || th.pending == Pending::Start || th.pending == Pending::Quiescence {
                continue;
            }
            if th.nested_done >= th.max_nest {
                continue;
            }
            for &s in &th.nest_signals {
                if th.active_sigs.contains(&s) {
                    continue;
                }
                alts.push((AltKind::Signal(x as u8, s), 1));
            }
        }
        if alts.is_empty() || !matches!(alts[0].0, AltKind::Run(_)) {
            let unfinished: Vec<String> = (1..n)
                .filter(|&x| e.threads[x].pending != Pending::Finished)
                .map(|x| {
                    format!(
                        "{} '{}' {:?} at {}:{}",
                        x, e.threads[x].name, e.threads[x].pending, e.threads[x].last_site.0, e.threads[x].last_site.1
                    )
                })
                .collect();
            if unfinished.is_empty() {
                // Everything finished: wake the controller.
                give(CONTROLLER);
                return;
            }
            fail(format!("deadlock: no thread can move; unfinished: [{}]", unfinished.join("; ")));
        }
        let c = e.decide(&alts);
        match alts[c].0 {
            AltKind::Run(x) => {
                let x = x as usize;
                if x == t {
                    e.threads[t].yielded = false;
                    return;
                }
                e.switches += 1;
                if t_enabled {
                    e.interleaved = true;
                }
                e.running = x;
                e.threads[x].yielded = false;
                let fin = e.threads[t].pending == Pending::Finished;
                give(x);
                if fin {
                    return;
                }
                wait_go(t);
                // We were chosen to run: but re-evaluate (a signal directive loops).
                if exec().threads[t].deliver.is_some() {
                    let s = exec().threads[t].deliver.take().unwrap();
                    exec().threads[t].nested_done += 1;
                    do_nested_raise(t, s);
                    continue;
                }
                return;
            }
            AltKind::Signal(x, s) => {
                let x = x as usize;
                e.interleaved = true;
                if x == t {
                    e.threads[t].nested_done += 1;
                    do_nested_raise(t, s);
                    continue;
                }
                e.switches += 1;
                e.threads[x].deliver = Some(s);
                e.running = x;
                let fin = e.threads[t].pending == Pending::Finished;
                give(x);
                if fin {
                    return;
                }
                wait_go(t);
                if exec().threads[t].deliver.is_some() {
                    let s = exec().threads[t].deliver.take().unwrap();
                    exec().threads[t].nested_done += 1;
                    do_nested_raise(t, s);
                    continue;
                }
                // Being handed the token without a directive means "run".
                return;
            }
            _ => unreachable!(),
        }
    }
}


/// Bookkeeping after thread `t` performed a step.
fn stepped(t: usize) {
    stepped2(t, true)
}

fn stepped2(t: usize, progress_made: bool) {
    let e = exec();
    e.steps += 1;
    e.threads[t].steps += 1;
    e.threads[t].last_run = e.steps;
    if handler_depth() > 0 {
        e.threads[t].handler_steps += 1;
    }
    if progress_made || t != e.last_forced {
        e.forced_reruns = 0;
    }
    for x in 1..e.threads.len() {
        e.threads[x].must_precede &= !(1u32 << t);
    }
    for x in 1..e.threads.len() {
        if x != t {
            e.threads[x].yielded = false;
        }
    }
    if let Some(p) = progress() {
        p.heartbeat.fetch_add(1, Ordering::Relaxed);
    }
}

fn check_alloc_flag() {
    if ALLOC_IN_HANDLER.load(Ordering::Relaxed) != 0 {
        let k = ALLOC_IN_HANDLER_KIND.load(Ordering::Relaxed);
        ALLOC_IN_HANDLER.store(0, Ordering::Relaxed);
        fail(format!(
            "heap {} by library code inside a signal handler frame",
            if k == 1 { "deallocation" } else { "allocation" }
        ));
    }
}

// ---------------------------------------------------------------------------------------------
// Hooks

fn is_acq(o: u8) -> bool {
    o == shim::ORD_ACQUIRE || o == shim::ORD_ACQREL || o == shim::ORD_SEQCST
}
fn is_rel(o: u8) -> bool {
    o == shim::ORD_RELEASE || o == shim::ORD_ACQREL || o == shim::ORD_SEQCST
}

fn touch_loc(e: &mut Exec, addr: usize, width: u8) {
    let cur = read_mem(addr, width);
    let fresh = match e.locs.get(&addr) {
        None => true,
        Some(l) => l.width != width || l.stores.last().map(|s| s.value) != Some(cur),
    };
    if fresh {
        const EMPTY: Vec<(u32, u32)> = Vec::new();
        e.locs.insert(
            addr,
            Loc {
                width,
                stores: vec![StoreRec {
                    value: cur,
                    release: [0; MAX_THREADS],
                    sc: true,
                }],
                obs: [EMPTY; MAX_THREADS],
                last_sc: 0,
            },
        );
    }
}

fn hook_pre(op: &shim::Op) -> u32 {
    let t = tid();
    if t == NONE || !have_exec() {
        return shim::DO_NORMAL;
    }
    let _g = EngineGuard::enter();
    check_alloc_flag();
    let e = exec();
    e.threads[t].last_site = (op.file, op.line);
    e.threads[t].last_kind = op.kind;
    if e.phase == Phase::Parallel || e.phase == Phase::Priming {
        let mut visible = true;
        if e.opts.reduce {
            if let Some(k) = e.key_of(op.addr) {
                let ident = ((t as u16) << 1) | (handler_depth() > 0) as u16;
                let shared = is_shared(k);
                match e.accessors.get(&k) {
                    None => {
                        e.accessors.insert(k, ident);
                    }
                    Some(&i) if i != ident => {
                        if !shared && !e.new_shared.contains(&k) {
                            e.new_shared.push(k);
                        }
                    }
                    _ => {}
                }
                visible = shared;
            }
        }
        if visible {
            e.threads[t].pending = Pending::Op;
            schedule(t);
        } else {
            e.skipped_ops += 1;
            if e.steps > e.opts.horizon {
                let in_handler = handler_depth() > 0 && e.handler_discipline;
                fail(format!(
                    "{}: step horizon {} exceeded (thread {} '{}' at {}:{}, looping on a thread-private location{})",
                    if in_handler { "C03" } else { "livelock" },
                    e.opts.horizon, t, e.threads[t].name, op.file, op.line,
                    if in_handler { "; inside a signal handler frame that does not finish" } else { "" }
                ));
            }
        }
    }
    let e = exec();
    if !e.freed_locs.is_empty() && e.freed_locs.contains(&op.addr) {
        fail(format!("use after free: an atomic operation at {}:{} works on a location that has been dropped and whose heap block has been released", op.file, op.line));
    }
    touch_loc(e, op.addr, op.width);
    if op.kind == shim::OP_CAS_WEAK
        && e.phase == Phase::Parallel
        && e.spurious_used < e.opts.max_spurious
    {
        let c = e.decide(&[(AltKind::Spurious(false), 0), (AltKind::Spurious(true), 1)]);
        if c == 1 {
            e.spurious_used += 1;
            return shim::DO_SPURIOUS_FAIL;
        }
    }
    shim::DO_NORMAL
}

fn hook_post(op: &shim::Op, real: u64, ok: bool) -> u64 {
    let t = tid();
    if t == NONE || !have_exec() {
        return real;
    }
    let _g = EngineGuard::enter();
    let e = exec();
    let clock = e.threads[t].clock;
    let me = clock[t];
    let mut ret = real;
    let mut join: Option<VClock> = None;
    let mut stale_choice: Option<(usize, usize)> = None;
    {
        let stale_ok = e.opts.stale_reads && e.phase == Phase::Parallel;
        let stale_depth = e.opts.stale_depth.max(1);
        let loc = e.locs.get_mut(&op.addr).expect("location touched in pre");
        let latest = loc.stores.len() - 1;
        match op.kind {
            shim::OP_LOAD => {
                // Floor: newest store this thread may no longer ignore.
                let mut floor = 0usize;
                for u in 0..MAX_THREADS {
                    let know = if u == t { u32::MAX } else { clock[u] };
                    if know == 0 {
                        continue;
                    }
                    // last observation of u with counter <= know
                    for &(c, idx) in loc.obs[u].iter().rev() {
                        if c <= know {
                            if idx as usize > floor {
                                floor = idx as usize;
                            }
                            break;
                        }
                    }
                }
                if op.ord == shim::ORD_SEQCST && (loc.last_sc as usize) > floor {
                    floor = loc.last_sc as usize;
                }
                if stale_ok && floor < latest {
                    let lo = floor.max(latest.saturating_sub(stale_depth));
                    stale_choice = Some((lo, latest));
                }
                // default: latest
                let s = &loc.stores[latest];
                ret = s.value;
                if is_acq(op.ord) {
                    join = Some(s.release);
                }
                loc.obs[t].push((me, latest as u32));
            }
            shim::OP_STORE => {
                let rel = if is_rel(op.ord) { clock } else { [0; MAX_THREADS] };
                loc.stores.push(StoreRec {
                    value: op.a & mask(op.width),
                    release: rel,
                    sc: op.ord == shim::ORD_SEQCST,
                });
                let idx = (loc.stores.len() - 1) as u32;
                if op.ord == shim::ORD_SEQCST {
                    loc.last_sc = idx;
                }
                loc.obs[t].push((me, idx));
            }
            _ => {
                // RMW or compare-exchange: reads the latest store.
                let prev_rel = loc.stores[latest].release;
                let wrote = if op.kind == shim::OP_CAS || op.kind == shim::OP_CAS_WEAK { ok } else { true };
                let ord = if ok { op.ord } else { op.fail_ord };
                if is_acq(ord) {
                    join = Some(prev_rel);
                }
                if wrote {
                    let m = mask(op.width);
                    let newv = match op.kind {
                        shim::OP_SWAP => op.a,
                        shim::OP_CAS | shim::OP_CAS_WEAK => op.b,
                        shim::OP_FETCH_ADD => real.wrapping_add(op.a),
                        shim::OP_FETCH_SUB => real.wrapping_sub(op.a),
                        shim::OP_FETCH_OR => real | op.a,
                        shim::OP_FETCH_AND => real & op.a,
                        shim::OP_FETCH_XOR => real ^ op.a,
                        _ => real,
                    } & m;
                    let mut rel = prev_rel; // an RMW continues the release sequence
                    if is_rel(op.ord) {
                        vc_join(&mut rel, &clock);
                    }
                    loc.stores.push(StoreRec {
                        value: newv,
                        release: rel,
                        sc: op.ord == shim::ORD_SEQCST,
                    });
                    let idx = (loc.stores.len() - 1) as u32;
                    if op.ord == shim::ORD_SEQCST {
                        loc.last_sc = idx;
                    }
                    loc.obs[t].push((me, idx));
                } else {
                    loc.obs[t].push((me, latest as u32));
                }
            }
        }
    }
    if let Some((lo, latest)) = stale_choice {
        // alternatives: latest (cost 0), then latest-1 .. lo (cost 1 each)
        let mut alts: Vec<(AltKind, u8)> = Vec::with_capacity(latest - lo + 1);
        alts.push((AltKind::Read(latest as u32), 0));
        let mut i = latest;
        while i > lo {
            i -= 1;
            alts.push((AltKind::Read(i as u32), 1));
        }
        let c = e.decide(&alts);
        if c > 0 {
            if let AltKind::Read(idx) = alts[c].0 {
                e.stale_taken += 1;
                e.interleaved = true;
                let loc = e.locs.get_mut(&op.addr).unwrap();
                let s = loc.stores[idx as usize].clone();
                ret = s.value;
                join = if is_acq(op.ord) { Some(s.release) } else { None };
                // fix the observation just recorded
                let l = loc.obs[t].len();
                loc.obs[t][l - 1] = (me, idx);
                e.push_ev("stale_read", op.addr as u64, s.value);
            }
        }
    }
    if let Some(j) = join {
        vc_join(&mut e.threads[t].clock, &j);
    }
    e.tick(t);
    if e.opts.log_ops || (e.opts.log_handler_ops && handler_depth() > 0) {
        let tag = match op.kind {
            shim::OP_LOAD => "op_load",
            shim::OP_STORE => "op_store",
            shim::OP_SWAP => "op_swap",
            shim::OP_CAS | shim::OP_CAS_WEAK => {
                if ok {
                    "op_cas_ok"
                } else {
                    "op_cas_fail"
                }
            }
            _ => "op_rmw",
        };
        e.push_ev(tag, op.addr as u64, ((op.line as u64) << 32) | (ret & 0xffff_ffff));
    }
    if !ok {
        e.threads[t].cas_fails += 1;
    }
    stepped2(t, !(op.kind == shim::OP_LOAD || !ok));
    if e.opts.post_points && e.phase == Phase::Parallel && ok && op.kind != shim::OP_LOAD && is_rel(op.ord) {
        // "return from the operation" is a schedulable pseudo-operation of this thread
        let visible = !e.opts.reduce || e.key_of(op.addr).map_or(true, is_shared);
        if visible {
            e.threads[t].pending = Pending::Op;
            schedule(t);
        }
    }
    ret
}

fn hook_loc_drop(addr: usize, _width: u8) {
    let t = tid();
    if t == NONE || !have_exec() {
        return;
    }
    let _g = EngineGuard::enter();
    let e = exec();
    e.locs.remove(&addr);
    if e.dead_locs.len() < e.dead_locs.capacity() {
        e.dead_locs.push(addr);
    }
    // For the private-location reduction, destroying a location is an access to it: a location one
    // thread operates on and another one destroys is shared (its operations are scheduling points).
    if e.opts.reduce && e.phase == Phase::Parallel {
        if let Some(k) = e.key_of(addr) {
            let ident = ((t as u16) << 1) | (handler_depth() > 0) as u16;
            match e.accessors.get(&k) {
                None => {
                    e.accessors.insert(k, ident);
                }
                Some(&i) if i != ident => {
                    if !is_shared(k) && !e.new_shared.contains(&k) {
                        e.new_shared.push(k);
                    }
                }
                _ => {}
            }
        }
    }
}

fn hook_mutex_pre_lock(addr: usize, file: &'static str, line: u32) {
    let t = tid();
    if t == NONE || !have_exec() {
        return;
    }
    let _g = EngineGuard::enter();
    check_alloc_flag();
    let e = exec();
    e.threads[t].last_site = (file, line);
    e.push_ev("mutex_lock", addr as u64, 0);
    if e.phase == Phase::Parallel || e.phase == Phase::Priming {
        e.threads[t].pending = Pending::MutexLock(addr);
        schedule(t);
    }
}

fn hook_mutex_post_lock(addr: usize, poisoned: bool) {
    let t = tid();
    if t == NONE || !have_exec() {
        return;
    }
    let _g = EngineGuard::enter();
    let e = exec();
    e.mutex_owner.insert(addr, t);
    if let Some(c) = e.mutex_clock.get(&addr).copied() {
        vc_join(&mut e.threads[t].clock, &c);
    }
    e.tick(t);
    if poisoned {
        e.push_ev("mutex_poisoned", addr as u64, 0);
    }
    stepped(t);
}

fn hook_mutex_pre_unlock(addr: usize) {
    let t = tid();
    if t == NONE || !have_exec() {
        return;
    }
    let _g = EngineGuard::enter();
    let e = exec();
    e.mutex_owner.remove(&addr);
    let c = e.threads[t].clock;
    e.mutex_clock.insert(addr, c);
    e.tick(t);
    e.push_ev("mutex_unlock", addr as u64, 0);
}

fn hook_yield(kind: u8) {
    let t = tid();
    if t == NONE || !have_exec() {
        return;
    }
    let _g = EngineGuard::enter();
    check_alloc_flag();
    let e = exec();
    e.push_ev(if kind == shim::YIELD_THREAD { "yield" } else { "spin_hint" }, 0, 0);
    if e.phase == Phase::Parallel || e.phase == Phase::Priming {
        e.threads[t].yielded = true;
        e.threads[t].pending = Pending::Op;
        // fairness: whoever could have run since this thread's previous yield but was not scheduled
        // goes first from now on
        let prev = e.threads[t].last_yield;
        let mut mask = 0u32;
        for u in 1..e.threads.len() {
            if u != t && e.enabled(u) && e.threads[u].last_run <= prev {
                mask |= 1 << u;
            }
        }
        e.threads[t].must_precede |= mask;
        e.threads[t].last_yield = e.steps + 1;
        schedule(t);
        let e = exec();
        e.steps += 1;
        e.threads[t].steps += 1;
        e.threads[t].last_run = e.steps;
        if let Some(p) = progress() {
            p.heartbeat.fetch_add(1, Ordering::Relaxed);
        }
    }
}

fn hook_sched_point(tag: &'static str, a: u64) {
    let t = tid();
    if t == NONE || !have_exec() {
        return;
    }
    let _g = EngineGuard::enter();
    check_alloc_flag();
    let e = exec();
    e.threads[t].last_site = (tag, 0);
    if e.phase == Phase::Parallel || e.phase == Phase::Priming {
        e.threads[t].pending = Pending::Op;
        schedule(t);
    }
    let e = exec();
    e.push_ev(tag, a, 0);
    if tag == "wake" {
        // C13: the descriptor an action writes its wake byte to must still be open (F_GETFD is a plain
        // system call, fine inside a handler frame). Recorded without abandoning the execution.
        if unsafe { libc::fcntl(a as i32, libc::F_GETFD) } == -1 && e.violation.is_none() {
            e.violation = Some(format!("C13: a delivery writes its wake byte to descriptor number {} which is closed at that moment (the write end was closed while an action that uses it is still registered)", a));
        }
        // ... and a pipe that is full must be in non-blocking mode by now (sockets are written with MSG_DONTWAIT)
        let would_block = unsafe {
            let mut st: libc::stat = std::mem::zeroed();
            let fifo = libc::fstat(a as i32, &mut st) == 0 && (st.st_mode & libc::S_IFMT) == libc::S_IFIFO;
            let blocking = libc::fcntl(a as i32, libc::F_GETFL) & libc::O_NONBLOCK == 0;
            let mut p = libc::pollfd { fd: a as i32, events: libc::POLLOUT, revents: 0 };
            fifo && blocking && libc::poll(&mut p, 1, 0) == 0
        };
        if would_block {
            fail("C13: a delivery is about to write its wake byte into a full pipe that is still in blocking mode: the handler would block".to_string());
        }
    }
    if tag == "cell_access" {
        e.access(a, true, tag);
    } else {
        e.tick(t);
    }
    stepped(t);
}

fn hook_event(tag: &'static str, a: u64, b: u64) {
    let t = tid();
    if t == NONE || !have_exec() {
        return;
    }
    let _g = EngineGuard::enter();
    let e = exec();
    match tag {
        "snapshot_alloc" => {
            e.live_snapshots.insert(a, ());
        }
        "snapshot_free" => {
            if let Some(i) = e.synth_freed.iter().position(|&x| x == a) {
                // already reported when the allocator saw the release
                e.synth_freed.swap_remove(i);
                return;
            }
            e.live_snapshots.remove(&a);
        }
        "barrier_reflip" => e.reflips += 1,
        _ => {}
    }
    e.push_ev(tag, a, b);
    match tag {
        "cell_write" | "cell_take" | "cell_access" => e.access(a, true, tag),
        "snapshot_alloc" => {
            e.forget_region(a);
            e.access(a, true, tag)
        }
        "snapshot_open" | "snapshot_close" => e.access(a, false, tag),
        "snapshot_free" => e.access(a, true, tag),
        _ => {}
    }
}

fn hook_blocking_read(fd: i32) {
    let t = tid();
    if t == NONE || !have_exec() {
        return;
    }
    let _g = EngineGuard::enter();
    check_alloc_flag();
    let e = exec();
    e.threads[t].last_site = ("blocking_read", 0);
    e.push_ev("blocking_read", fd as u64, 0);
    if e.phase == Phase::Parallel || e.phase == Phase::Priming {
        e.threads[t].pending = Pending::BlockingRead(fd);
        schedule(t);
    }
    let e = exec();
    e.push_ev("blocking_read_go", fd as u64, 0);
    e.tick(t);
    stepped(t);
}

static HOOKS: shim::Hooks = shim::Hooks {
    pre: hook_pre,
    post: hook_post,
    loc_drop: hook_loc_drop,
    mutex_pre_lock: hook_mutex_pre_lock,
    mutex_post_lock: hook_mutex_post_lock,
    mutex_pre_unlock: hook_mutex_pre_unlock,
    yield_hint: hook_yield,
    sched_point: hook_sched_point,
    event: hook_event,
    blocking_read: hook_blocking_read,
};

pub fn install_hooks() {
    if let Ok(v) = std::env::var("VERIF_TRACE") {
        TRACE.store(if v == "alloc" { 2 } else { 1 }, Ordering::Relaxed);
    }
    shim::install(&HOOKS);
}

// ---------------------------------------------------------------------------------------------
// Harness-facing API (called from scenario bodies, actions, foreign handlers)

/// Log a harness event (also from inside signal handlers).
pub fn log(tag: &'static str, a: u64, b: u64) {
    if tid() == NONE || !have_exec() {
        return;
    }
    let _g = EngineGuard::enter();
    let e = exec();
    e.push_ev(tag, a, b);
    let t = tid();
    e.tick(t);
}

/// Harness-level non-atomic access to a named region (race-checked).
pub fn exec_access(region: u64, write: bool, tag: &'static str) {
    if tid() == NONE || !have_exec() {
        return;
    }
    let _g = EngineGuard::enter();
    exec().access(region, write, tag);
}

/// A harness-level scheduling point (an operation of the harness itself that other threads may
/// be interleaved around).
pub fn point(tag: &'static str, a: u64) {
    hook_sched_point(tag, a);
}

/// Deliver `sig` to the calling model thread (the body of a delivery thread).
pub fn raise(sig: i32) {
    let t = tid();
    assert!(t != NONE);
    hook_sched_point("raise", sig as u64);
    let _g = EngineGuard::enter();
    do_raise(t, sig);
}

/// Deliver `sig` to the controller during scenario setup / finish (no scheduling, the signal is
/// unblocked only for the duration of the call).
pub fn setup_raise(sig: i32) {
    let _g = EngineGuard::enter();
    block_signals(&[sig], libc::SIG_UNBLOCK);
    DEPTH.with(|d| d.set(d.get() + 1));
    let prev = IN_ENGINE.with(|c| c.replace(false));
    unsafe {
        libc::raise(sig);
    }
    IN_ENGINE.with(|c| c.set(prev));
    DEPTH.with(|d| d.set(d.get() - 1));
    block_signals(&[sig], libc::SIG_BLOCK);
    check_alloc_flag();
    if let Some(p) = progress() {
        p.heartbeat.fetch_add(1, Ordering::Relaxed);
    }
}

/// Deliver with a payload (`sigqueue` to the calling thread's process is not thread-directed;
/// `pthread_sigqueue` is).
pub fn raise_value(sig: i32, value: usize) {
    let t = tid();
    assert!(t != NONE);
    hook_sched_point("raise", sig as u64);
    let _g = EngineGuard::enter();
    do_raise_with(t, sig, Some(value));
}

/// Block until `fd` is readable (level-triggered readiness, e.g. an armed waker of an event loop).
pub fn wait_readable(fd: i32) {
    hook_blocking_read(fd);
}

/// Block until no other thread can move (lowest-priority thread, e.g. the closer).
pub fn await_quiescence() {
    let t = tid();
    assert!(t != NONE);
    let _g = EngineGuard::enter();
    let e = exec();
    e.threads[t].last_site = ("await_quiescence", 0);
    e.threads[t].pending = Pending::Quiescence;
    schedule(t);
    let e = exec();
    e.threads[t].pending = Pending::Op;
    e.push_ev("quiescent", 0, 0);
    e.tick(t);
    stepped(t);
}

/// Snapshot for oracles: which threads are blocked on what.
pub fn thread_pending(x: usize) -> Pending {
    exec().threads[x].pending
}

// ---------------------------------------------------------------------------------------------
// Running one execution

pub struct ThreadSpec<S> {
    pub name: &'static str,
    pub body: Box<dyn Fn(&S) + Sync + Send>,
    pub nest_signals: Vec<i32>,
    pub max_nest: u32,
}


pub struct Scenario<S: Sync + Send + 'static> {
    pub name: String,
    pub opts: Opts,
    /// Signals that model threads must have unblocked (blocked in the controller).
    pub signals: Vec<i32>,
    pub setup: Box<dyn Fn() -> S + Sync + Send>,
    pub threads: Vec<ThreadSpec<S>>,
    /// Runs on the controller after all threads finished; returns the observation digest.
    pub finish: Box<dyn Fn(S, &mut Exec) -> Result<u64, String> + Sync + Send>,
    pub monitor: Option<Box<dyn Fn() -> Box<dyn Monitor> + Sync + Send>>,
}

pub struct Outcome {
    pub decisions: Vec<(u16, u16)>,
    pub costs: Vec<Vec<u8>>,
    pub steps: u64,
    pub digest: u64,
    pub interleaved: bool,
    pub switches: u64,
    pub signals: u64,
    pub stale: u64,
    pub reflips: u64,
    pub log: Vec<Ev>,
    pub kinds: Vec<Vec<AltKind>>,
    pub violation: Option<String>,
    pub diverged: u32,
    pub new_shared: Vec<(u32, u32)>,
    pub skipped: u64,
}

fn block_signals(sigs: &[i32], how: i32) {
    unsafe {
        let mut set: libc::sigset_t = std::mem::zeroed();
        libc::sigemptyset(&mut set);
        for &s in sigs {
            libc::sigaddset(&mut set, s);
        }
        libc::pthread_sigmask(how, &set, std::ptr::null_mut());
    }
}

/// Set when the previous execution was abandoned (its threads are parked forever and may still
/// reference the old registry): the next registry reset must leak instead of dropping.
pub static LEAK_NEXT_RESET: std::sync::atomic::AtomicBool = std::sync::atomic::AtomicBool::new(false);

struct ViolationUnwind;

// ---------------------------------------------------------------------------------------------
// Pool of model threads (thread creation costs ~300us here; an execution has ~50 steps)

type JobFn = Box<dyn FnOnce() + Send + 'static>;
static POOL_JOB: [std::sync::Mutex<Option<JobFn>>; MAX_THREADS] = {
    const M: std::sync::Mutex<Option<JobFn>> = std::sync::Mutex::new(None);
    [M; MAX_THREADS]
};
static POOL_SEQ: [AtomicU32; MAX_THREADS] = {
    const Z: AtomicU32 = AtomicU32::new(0);
    [Z; MAX_THREADS]
};
static POOL_ALIVE: [AtomicU32; MAX_THREADS] = {
    const Z: AtomicU32 = AtomicU32::new(0);
    [Z; MAX_THREADS]
};
static POOL_DONE: [AtomicU32; MAX_THREADS] = {
    const Z: AtomicU32 = AtomicU32::new(0);
    [Z; MAX_THREADS]
};

fn pool_main(i: usize, mut seen: u32) {
    loop {
        // wait for a new job
        let mut spins = 0u32;
        loop {
            let cur = POOL_SEQ[i].load(Ordering::Acquire);
            if cur != seen {
                seen = cur;
                break;
            }
            spins += 1;
            if spins < 20_000 {
                std::hint::spin_loop();
            } else {
                futex_wait(&POOL_SEQ[i], seen);
            }
        }
        let job = POOL_JOB[i].lock().unwrap().take();
        if let Some(j) = job {
            j();
        }
        POOL_DONE[i].store(1, Ordering::SeqCst);
    }
}

fn pool_submit(i: usize, job: JobFn) {
    if POOL_ALIVE[i].load(Ordering::SeqCst) == 0 {
        let seen = POOL_SEQ[i].load(Ordering::SeqCst);
        POOL_ALIVE[i].store(1, Ordering::SeqCst);
        std::thread::Builder::new().stack_size(512 * 1024).spawn(move || pool_main(i, seen)).expect("spawn pool thread");
    }
    POOL_DONE[i].store(0, Ordering::SeqCst);
    *POOL_JOB[i].lock().unwrap() = Some(job);
    POOL_SEQ[i].fetch_add(1, Ordering::SeqCst);
    futex_wake(&POOL_SEQ[i]);
}

fn new_thread_st(name: &'static str, pending: Pending, clock: VClock, nest: Vec<i32>, max_nest: u32) -> ThreadSt {
    ThreadSt {
        name,
        pending,
        yielded: false,
        clock,
        steps: 0,
        handler_steps: 0,
        nest_signals: nest,
        max_nest,
        nest_value: 0,
        nested_done: 0,
        active_sigs: vec![],
        deliver: None,
        last_site: ("start", 0),
        last_kind: 0,
        cas_fails: 0,
        last_run: 0,
        last_yield: 0,
        must_precede: 0,
    }
}

fn model_thread<S: Sync + Send + 'static>(sc: usize, st: std::sync::Arc<S>, i: usize, epoch: u64) {
    let sc: &Scenario<S> = unsafe { &*(sc as *const Scenario<S>) };
    let ts = &sc.threads[i];
    let me = i + 1;
    TID.with(|t| t.set(me));
    MY_EPOCH.with(|t| t.set(epoch));
    DEPTH.with(|d| d.set(0));
    IN_ENGINE.with(|c| c.set(true));
    block_signals(&sc.signals, libc::SIG_UNBLOCK);
    wait_go(me);
    exec().threads[me].pending = Pending::Op;
    exec().push_ev("thread_start", me as u64, 0);
    IN_ENGINE.with(|c| c.set(false));
    // The start of the body is a scheduling point of its own: code a body runs before its first
    // hooked operation (dropping an Arc, closing a descriptor) must be placeable after other
    // threads' steps, not executed "at time zero" while the threads are primed.
    if sc.opts.start_points {
        hook_sched_point("thread_body_start", me as u64);
    }
    let r = std::panic::catch_unwind(std::panic::AssertUnwindSafe(|| (ts.body)(&st)));
    IN_ENGINE.with(|c| c.set(true));
    check_alloc_flag();
    if let Err(p) = r {
        let msg: String = if let Some(s) = p.downcast_ref::<&str>() {
            s.to_string()
        } else if let Some(s) = p.downcast_ref::<String>() {
            s.clone()
        } else {
            "panic".into()
        };
        let e = exec();
        e.push_ev("thread_panic", me as u64, 0);
        e.panics.push((me, msg));
    }
    drop(st);
    let e = exec();
    e.push_ev("thread_end", me as u64, 0);
    e.threads[me].pending = Pending::Finished;
    block_signals(&sc.signals, libc::SIG_BLOCK);
    TID.with(|t| t.set(NONE));
    // hand the token on (TID is needed by schedule only through the argument)
    TID.with(|t| t.set(me));
    schedule(me);
    TID.with(|t| t.set(NONE));
    EXITED.fetch_add(1, Ordering::SeqCst);
}

pub static PROF: [AtomicU64; 6] = [AtomicU64::new(0), AtomicU64::new(0), AtomicU64::new(0), AtomicU64::new(0), AtomicU64::new(0), AtomicU64::new(0)];

pub fn run_one<S: Sync + Send + 'static>(sc: &Scenario<S>, choices: &[u32], keep_log: bool) -> Outcome {
    let t_start = std::time::Instant::now();
    let mut t_setup = t_start;
    let mut t_spawn = t_start;
    let mut t_par = t_start;
    let mut t_join = t_start;
    install_hooks();
    block_signals(&sc.signals, libc::SIG_BLOCK);
    let mut ex = Box::new(Exec::new(sc.opts.clone(), choices.to_vec()));
    if ex.opts.horizon == 0 {
        ex.opts.horizon = 200_000;
    }
    // thread 0 = controller (setup / finish)
    let mut c0 = [0; MAX_THREADS];
    c0[0] = 1;
    ex.threads.push(new_thread_st("main", Pending::Op, c0, vec![], 0));
    if let Some(m) = &sc.monitor {
        ex.monitor = Some(m());
    }
    if sc.opts.no_discipline {
        ex.handler_discipline = false;
    }
    if sc.opts.no_race_check {
        ex.race_check = false;
    }
    ALLOC_IN_HANDLER.store(0, Ordering::Relaxed);
    if let Some(p) = progress() {
        p.len.store(0, Ordering::Relaxed);
    }
    unsafe {
        EXEC = &mut *ex as *mut Exec;
    }
    TID.with(|t| t.set(0));
    let _g = EngineGuard::enter();
    let n = sc.threads.len();
    assert!(n + 1 <= MAX_THREADS);
    let epoch = EPOCH.load(Ordering::SeqCst);
    MY_EPOCH.with(|t| t.set(epoch));
    EXITED.store(0, Ordering::SeqCst);
    PARKED.store(0, Ordering::SeqCst);
    let mut spawned = 0usize;

    let body = std::panic::catch_unwind(std::panic::AssertUnwindSafe(|| -> Result<u64, String> {
        let state = {
            SETUP_N.store(0, Ordering::SeqCst);
            RECORD_ALLOCS.store(sc.opts.reduce as u32, Ordering::SeqCst);
            IN_ENGINE.with(|c| c.set(false));
            let s = (sc.setup)();
            IN_ENGINE.with(|c| c.set(true));
            RECORD_ALLOCS.store(0, Ordering::SeqCst);
            if sc.opts.reduce {
                let n = SETUP_N.load(Ordering::SeqCst).min(MAX_SETUP_ALLOCS);
                let mut v: Vec<(usize, usize, u32)> = Vec::with_capacity(n);
                let mut live = 0u32;
                for i in 0..n {
                    let p = SETUP_ALLOCS[i][0].load(Ordering::Relaxed);
                    let sz = SETUP_ALLOCS[i][1].load(Ordering::Relaxed);
                    if p != 0 && sz != 0 {
                        v.push((p, p + sz, live));
                        live += 1;
                    }
                }
                v.sort();
                exec().named = v;
            }
            std::sync::Arc::new(s)
        };
        LEAK_NEXT_RESET.store(false, Ordering::SeqCst);
        t_setup = std::time::Instant::now();
        let e = exec();
        let base = e.threads[0].clock;
        for (i, ts) in sc.threads.iter().enumerate() {
            let mut clock = base;
            clock[i + 1] = 1;
            e.threads.push(new_thread_st(ts.name, Pending::Start, clock, ts.nest_signals.clone(), ts.max_nest));
            if i == 0 && sc.opts.nest_value_t1 != 0 {
                let l = e.threads.len() - 1;
                e.threads[l].nest_value = sc.opts.nest_value_t1;
            }
        }
        e.tick(0);
        e.phase = Phase::Priming;
        for s in SLOTS.iter() {
            s.go.store(0, Ordering::SeqCst);
        }
        let scp = sc as *const Scenario<S> as usize;
        for i in 0..n {
            let st = state.clone();
            pool_submit(i + 1, Box::new(move || model_thread::<S>(scp, st, i, epoch)));
            spawned += 1;
        }
        // Prime: every thread runs alone up to its first scheduling point.
        exec().threads[0].pending = Pending::Finished;
        for x in 1..=n {
            exec().running = x;
            give(x);
            wait_go(CONTROLLER);
            if exec().abandoned {
                return Err(String::new());
            }
        }
        exec().phase = Phase::Parallel;
        t_spawn = std::time::Instant::now();
        // The controller makes the first decision as "thread 0" (not enabled itself).
        schedule_from_controller();
        wait_go(CONTROLLER);
        t_par = std::time::Instant::now();
        if exec().abandoned {
            return Err(String::new());
        }
        // all model threads have handed the token on; wait until their jobs have returned
        for i in 1..=n {
            let mut k = 0u32;
            while POOL_DONE[i].load(Ordering::SeqCst) == 0 {
                k += 1;
                if k < 100_000 {
                    std::hint::spin_loop();
                } else {
                    std::thread::yield_now();
                }
            }
        }
        t_join = std::time::Instant::now();
        let e = exec();
        e.phase = Phase::Finish;
        e.threads[0].pending = Pending::Op;
        // join edges
        let mut c = e.threads[0].clock;
        for x in 1..e.threads.len() {
            let o = e.threads[x].clock;
            vc_join(&mut c, &o);
        }
        e.threads[0].clock = c;
        check_alloc_flag();
        let state = match std::sync::Arc::try_unwrap(state) {
            Ok(s) => s,
            Err(_) => return Err("engine: scenario state still shared after all threads ended".into()),
        };
        IN_ENGINE.with(|c| c.set(false));
        let r = (sc.finish)(state, e);
        IN_ENGINE.with(|c| c.set(true));
        check_alloc_flag();
        r
    }));
    let e = exec();
    let mut digest = 0;
    match body {
        Ok(Ok(d)) => digest = d,
        Ok(Err(m)) => {
            if e.violation.is_none() {
                e.violation = Some(m);
            }
        }
        Err(p) => {
            if p.downcast_ref::<ViolationUnwind>().is_none() {
                // a genuine panic in harness/engine code on the controller
                let msg = p.downcast_ref::<String>().cloned().or_else(|| p.downcast_ref::<&str>().map(|s| s.to_string())).unwrap_or_default();
                if e.violation.is_none() {
                    e.violation = Some(format!("panic: a library call made during scenario setup/finish panicked: {}", msg));
                }
            }
        }
    }
    let abandoned = e.abandoned;
    if abandoned {
        // Retire every model thread of this execution that has not exited: bump the epoch, kick
        // the slots, wait until each has either exited or parked for good.
        EPOCH.fetch_add(1, Ordering::SeqCst);
        for i in 1..=MAX_THREADS - 1 {
            give(i);
        }
        let t0 = std::time::Instant::now();
        while (EXITED.load(Ordering::SeqCst) + PARKED.load(Ordering::SeqCst)) < spawned as u64 {
            std::thread::yield_now();
            if t0.elapsed() > std::time::Duration::from_secs(10) {
                eprintln!("ENGINE ERROR: abandoned threads did not retire");
                unsafe { libc::_exit(2) }
            }
        }
        for s in SLOTS.iter() {
            s.go.store(0, Ordering::SeqCst);
        }
        // pool threads that did not return from their job are parked for good: replace them lazily
        for i in 1..=n {
            if POOL_DONE[i].load(Ordering::SeqCst) == 0 {
                POOL_ALIVE[i].store(0, Ordering::SeqCst);
            }
        }
        LEAK_NEXT_RESET.store(true, Ordering::SeqCst);
    }
    let out = Outcome {
        decisions: e.decisions.iter().map(|d| (d.n, d.chosen)).collect(),
        costs: (0..e.decisions.len()).map(|i| e.costs_of(i).to_vec()).collect(),
        kinds: if keep_log {
            (0..e.decisions.len()).map(|i| e.kinds_of(i).to_vec()).collect()
        } else {
            vec![]
        },
        steps: e.steps,
        digest,
        interleaved: e.interleaved,
        switches: e.switches,
        signals: e.signals_delivered,
        stale: e.stale_taken,
        reflips: e.reflips,
        log: if keep_log || e.violation.is_some() { std::mem::take(&mut e.log) } else { vec![] },
        violation: e.violation.take(),
        diverged: e.diverged,
        new_shared: std::mem::take(&mut e.new_shared),
        skipped: e.skipped_ops,
    };
    unsafe {
        EXEC = std::ptr::null_mut();
    }
    TID.with(|t| t.set(NONE));
    if let Some(p) = progress() {
        p.executions.fetch_add(1, Ordering::Relaxed);
    }
    if abandoned {
        Box::leak(ex);
    } else {
        drop(ex);
    }
    let t_end = std::time::Instant::now();
    PROF[0].fetch_add((t_setup - t_start).as_nanos() as u64, Ordering::Relaxed);
    PROF[1].fetch_add(t_spawn.saturating_duration_since(t_setup).as_nanos() as u64, Ordering::Relaxed);
    PROF[2].fetch_add(t_par.saturating_duration_since(t_spawn).as_nanos() as u64, Ordering::Relaxed);
    PROF[3].fetch_add(t_join.saturating_duration_since(t_par).as_nanos() as u64, Ordering::Relaxed);
    PROF[4].fetch_add(t_end.saturating_duration_since(t_join).as_nanos() as u64, Ordering::Relaxed);
    PROF[5].fetch_add(1, Ordering::Relaxed);
    out
}

fn schedule_from_controller() {
    // The controller holds the token initially and behaves like a finished thread 0.
    let e = exec();
    let n = e.threads.len();
    if n == 1 {
        give(CONTROLLER);
        return;
    }
    // Behave like a finished thread handing the token on.
    schedule(0);
}

/// Does event `a` (log index `ia`) happen-before event `b` (log index `ib`)?
pub fn hb(a: &Ev, ia: usize, b: &Ev, ib: usize) -> bool {
    if ia >= ib {
        return false;
    }
    if a.tid == b.tid {
        return true;
    }
    let u = a.tid as usize;
    if u >= MAX_THREADS {
        return false;
    }
    b.clock[u] >= a.clock[u]
}
