//! Global allocator wrapper: notes heap traffic by library code inside signal handler frames and
//! records the allocations made during scenario setup (stable names for heap locations).
use std::alloc::{GlobalAlloc, Layout, System};

pub struct CheckAlloc;

unsafe impl GlobalAlloc for CheckAlloc {
    unsafe fn alloc(&self, l: Layout) -> *mut u8 {
        let p = System.alloc(l);
        crate::sched::note_alloc(0, p as usize, l.size());
        p
    }
    unsafe fn dealloc(&self, p: *mut u8, l: Layout) {
        crate::sched::note_alloc(1, p as usize, l.size());
        System.dealloc(p, l)
    }
    unsafe fn alloc_zeroed(&self, l: Layout) -> *mut u8 {
        let p = System.alloc_zeroed(l);
        crate::sched::note_alloc(0, p as usize, l.size());
        p
    }
    unsafe fn realloc(&self, p: *mut u8, l: Layout, n: usize) -> *mut u8 {
        crate::sched::note_alloc(1, p as usize, l.size());
        let q = System.realloc(p, l, n);
        crate::sched::note_alloc(0, q as usize, n);
        q
    }
}
