//! Global allocator wrapper: notes heap traffic by library code inside signal handler frames.
use std::alloc::{GlobalAlloc, Layout, System};

pub struct CheckAlloc;

unsafe impl GlobalAlloc for CheckAlloc {
    unsafe fn alloc(&self, l: Layout) -> *mut u8 {
        crate::sched::note_alloc(0);
        System.alloc(l)
    }
    unsafe fn dealloc(&self, p: *mut u8, l: Layout) {
        crate::sched::note_alloc(1);
        System.dealloc(p, l)
    }
    unsafe fn alloc_zeroed(&self, l: Layout) -> *mut u8 {
        crate::sched::note_alloc(0);
        System.alloc_zeroed(l)
    }
    unsafe fn realloc(&self, p: *mut u8, l: Layout, n: usize) -> *mut u8 {
        crate::sched::note_alloc(0);
        System.realloc(p, l, n)
    }
}
