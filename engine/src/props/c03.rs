//! C03: dispatch is async-signal-safe. Deliveries with every built-in action installed, arriving on
//! another thread or nested at every operation boundary of registry / iterator / channel mutators.
//! The engine-wide monitors do the judging: no lock / yield / blocking read and no heap traffic by
//! library code inside a handler frame, every delivery returns, and a delivery that was not
//! switched out finishes within a step bound fixed from the code.
#![allow(clippy::all)]
use super::reg::{fresh_registry, Disp, S1, S2};
use super::{item, Item, Tier};
use crate::sched::{self, Exec, Opts, Scenario, ThreadSpec};
use signal_hook::iterator::exfiltrator::{WithOrigin, WithRawSiginfo};
use signal_hook::iterator::{Signals, SignalsInfo};
use signal_hook_registry as reg;
use std::os::unix::io::{AsRawFd, IntoRawFd};
use std::os::unix::net::{UnixDatagram, UnixStream};
use std::sync::atomic::{AtomicBool, AtomicUsize};
use std::sync::{Arc, Mutex};

pub struct CS {
    sig_only: Mutex<Option<Signals>>,
    raw: Mutex<Option<SignalsInfo<WithRawSiginfo>>>,
    origin: Mutex<Option<SignalsInfo<WithOrigin>>>,
    flag: Arc<AtomicBool>,
    /// a surviving handle of a fourth instance whose SignalsInfo was dropped in setup: the handle is
    /// the last owner of that instance's registrations, slots and pipe
    orphan_handle: Mutex<Option<signal_hook::iterator::Handle>>,
    #[allow(dead_code)]
    keep: Vec<Box<dyn std::any::Any + Send + Sync>>,
    ids: Mutex<Vec<reg::SigId>>,
}

#[derive(Clone)]
pub struct CP {
    pub name: &'static str,
    pub full_pipes: bool,
    pub mutator: u8,
    pub deliveries: u32,
    pub bound_steps: u64,
    /// deliveries made during setup without anybody draining: fills the iterators' own self-pipes
    pub prefill_deliveries: u32,
}

fn fill(fd: i32) {
    let buf = [0u8; 4096];
    loop {
        let r = unsafe { libc::send(fd, buf.as_ptr() as *const _, buf.len(), libc::MSG_DONTWAIT) };
        if r <= 0 {
            let r2 = unsafe {
                let fl = libc::fcntl(fd, libc::F_GETFL);
                libc::fcntl(fd, libc::F_SETFL, fl | libc::O_NONBLOCK);
                let r2 = libc::write(fd, buf.as_ptr() as *const _, buf.len());
                libc::fcntl(fd, libc::F_SETFL, fl);
                r2
            };
            if r2 <= 0 {
                // try single bytes to fill up completely
                let one = unsafe { libc::send(fd, buf.as_ptr() as *const _, 1, libc::MSG_DONTWAIT) };
                if one <= 0 {
                    break;
                }
            }
        }
    }
}

pub fn build(p: CP) -> Scenario<Arc<CS>> {
    let pp = p.clone();
    let setup = move || {
        fresh_registry(&[(S1, Disp::Ignore), (S2, Disp::Ignore), (libc::SIGRTMIN() + 3, Disp::Ignore)]);
        let flag = Arc::new(AtomicBool::new(false));
        let cond = Arc::new(AtomicBool::new(false));
        // armed conditional default on a signal the default-action table does not list: the library
        // refuses it (then the deliveries below meet an ignored signal); if it ever accepts it, the
        // delivery runs that action
        let _ = signal_hook::flag::register_conditional_default(libc::SIGRTMIN() + 3, Arc::new(AtomicBool::new(true)));
        let mut keep: Vec<Box<dyn std::any::Any + Send + Sync>> = Vec::new();
        let mut ids = Vec::new();
        ids.push(signal_hook::flag::register(S1, flag.clone()).unwrap());
        ids.push(signal_hook::flag::register_usize(S1, Arc::new(AtomicUsize::new(0)), 7).unwrap());
        ids.push(signal_hook::flag::register_conditional_shutdown(S1, 3, cond.clone()).unwrap());
        ids.push(signal_hook::flag::register_conditional_default(S1, cond.clone()).unwrap());
        // self-pipes of the three kinds
        let mut fds = [0i32; 2];
        unsafe {
            libc::pipe(fds.as_mut_ptr());
            libc::fcntl(fds[1], libc::F_SETPIPE_SZ, 4096);
        }
        let (sr, sw) = UnixStream::pair().unwrap();
        let (dr, dw) = UnixDatagram::pair().unwrap();
        if pp.full_pipes {
            unsafe {
                let fl = libc::fcntl(fds[1], libc::F_GETFL);
                libc::fcntl(fds[1], libc::F_SETFL, fl | libc::O_NONBLOCK);
                let buf = [0u8; 4096];
                while libc::write(fds[1], buf.as_ptr() as *const _, buf.len()) > 0 {}
                while libc::write(fds[1], buf.as_ptr() as *const _, 1) > 0 {}
                libc::fcntl(fds[1], libc::F_SETFL, fl);
            }
            fill(sw.as_raw_fd());
            fill(dw.as_raw_fd());
        }
        ids.push(signal_hook::low_level::pipe::register_raw(S1, fds[1]).unwrap());
        ids.push(signal_hook::low_level::pipe::register(S1, sw).unwrap());
        ids.push(signal_hook::low_level::pipe::register_raw(S1, dw.into_raw_fd()).unwrap());
        struct Fd(i32);
        impl Drop for Fd {
            fn drop(&mut self) {
                unsafe {
                    libc::close(self.0);
                }
            }
        }
        keep.push(Box::new(Fd(fds[0])));
        keep.push(Box::new(sr));
        keep.push(Box::new(dr));
        let so = Signals::new(&[S1]).unwrap();
        let raw = SignalsInfo::<WithRawSiginfo>::new(&[S1]).unwrap();
        let origin = SignalsInfo::<WithOrigin>::new(&[S1]).unwrap();
        for _ in 0..pp.prefill_deliveries {
            sched::setup_raise(S1);
        }
        let orphan_handle = if pp.mutator == 4 {
            let fourth = SignalsInfo::<WithRawSiginfo>::new(&[S1]).unwrap();
            let h = fourth.handle();
            drop(fourth);
            Some(h)
        } else {
            None
        };
        Arc::new(CS { sig_only: Mutex::new(Some(so)), raw: Mutex::new(Some(raw)), origin: Mutex::new(Some(origin)), flag, orphan_handle: Mutex::new(orphan_handle), keep, ids: Mutex::new(ids) })
    };
    let mutator = p.mutator;
    let m = ThreadSpec {
        name: "M",
        body: Box::new(move |s: &Arc<CS>| match mutator {
            0 => {
                // registry calls
                let id = unsafe { reg::register(S1, || ()) }.unwrap();
                reg::unregister(id);
                #[allow(deprecated)]
                reg::unregister_signal(S2);
            }
            1 => {
                // iterator construction / add_signal / drop
                let x = Signals::new(&[S2]).unwrap();
                x.add_signal(S1).unwrap();
                drop(x);
            }
            2 => {
                // scans and channel receives of the three instances
                let mut a = s.sig_only.lock().unwrap().take().unwrap();
                let mut b = s.raw.lock().unwrap().take().unwrap();
                for _ in a.pending() {}
                for _ in b.pending() {}
                *s.sig_only.lock().unwrap() = Some(a);
                *s.raw.lock().unwrap() = Some(b);
            }
            6 => {
                // an info-carrying instance starts to watch the signal that is being delivered
                let x = SignalsInfo::<WithRawSiginfo>::new(&[S2]).unwrap();
                x.add_signal(S1).unwrap();
                drop(x);
            }
            5 => {
                // a signal nobody else uses: registered, given back completely, registered again
                let id = unsafe { reg::register(S2, || ()) }.unwrap();
                reg::unregister(id);
                let id = unsafe { reg::register(S2, || ()) }.unwrap();
                reg::unregister(id);
            }
            4 => {
                // dropping the last owner of an instance whose SignalsInfo is already gone
                let h = s.orphan_handle.lock().unwrap().take();
                drop(h);
            }
            _ => {
                // dropping an instance (unregisters under its own lock)
                let o = s.origin.lock().unwrap().take();
                drop(o);
                let mut b = s.raw.lock().unwrap().take().unwrap();
                for _ in b.pending() {}
                *s.raw.lock().unwrap() = Some(b);
            }
        }),
        nest_signals: if mutator == 5 { vec![S2, S1] } else { vec![S1] },
        max_nest: 2,
    };
    let n = p.deliveries;
    let d = ThreadSpec {
        name: "D",
        body: Box::new(move |_s: &Arc<CS>| {
            for k in 0..n {
                sched::raise(if mutator == 5 && k % 2 == 0 { S2 } else { S1 });
            }
            if mutator == 0 {
                sched::raise(libc::SIGRTMIN() + 3);
            }
        }),
        nest_signals: vec![],
        max_nest: 0,
    };
    let bound = p.bound_steps;
    let finish = move |s: Arc<CS>, e: &mut Exec| -> Result<u64, String> {
        let flag_set = s.flag.load(std::sync::atomic::Ordering::SeqCst);
        for id in s.ids.lock().unwrap().drain(..) {
            reg::unregister(id);
        }
        let s = Arc::try_unwrap(s).map_err(|_| "engine: state shared".to_string())?;
        drop(s);
        if !e.panics.is_empty() {
            return Err(format!("C03: a thread panicked: {:?}", e.panics));
        }
        let mut h: u64 = 0xcbf29ce484222325;
        let mut open = 0i64;
        let mut n = 0u64;
        for ev in &e.log {
            match ev.tag {
                "deliver_begin" => open += 1,
                "deliver_end" => {
                    open -= 1;
                    n += 1;
                    let steps = ev.b >> 1;
                    let solo = ev.b & 1 == 1;
                    if solo && ev.depth == 0 && steps > bound {
                        return Err(format!("C03: a delivery that ran without being switched out took {} own steps (allowed: {}, three times what the code needs)", steps, bound));
                    }
                    h ^= (steps << 8) | (ev.tid as u64);
                    h = h.wrapping_mul(0x100000001b3);
                }
                _ => {}
            }
        }
        if open != 0 {
            return Err("C03: a delivery never returned".into());
        }
        let _ = (n, flag_set);
        Ok(h)
    };
    Scenario {
        name: p.name.to_string(),
        opts: Opts { stale_reads: false, stale_depth: 2, max_spurious: 0, horizon: 60_000, log_ops: false, log_handler_ops: false, reduce: true, no_discipline: false, nest_value_t1: 0, post_points: false, no_race_check: false, start_points: true, endurance: 0 },
        signals: vec![S1, S2],
        setup: Box::new(setup),
        threads: vec![m, d],
        finish: Box::new(finish),
        monitor: None,
    }
}

pub fn scenarios(tier: Tier) -> Vec<Item> {
    let q = tier == Tier::Quick;
    let b = |quick: u32, thorough: u32| Some(if q { quick } else { thorough });
    // Step bound of one delivery with all actions installed, from the code:
    //  2 half-lock sections (generation load, fetch_add, pointer load, fetch_sub each) = 8
    //  3 self-pipe wakes (1 scheduling point each)                                  = 3
    //  SignalOnly store + wake                                                        = 2
    //  2 x (channel pointer load + send [2 loads + 2 CAS] + wake)                     = 12
    // flags / conditional shutdown / conditional default use the caller's plain atomics (0).
    // 27 steps from the code; the check allows three times that, so that a refactoring which adds a
    // few operations passes while anything that waits or loops does not
    let steps = 3 * (8 + 3 + 2 + 14);
    let mut v = Vec::new();
    for (mi, mname) in ["registry", "iter_new_add_drop", "scans_and_recv", "instance_drop", "last_handle_drop", "reregister_cycle", "raw_instance_adds_delivered_signal"].iter().enumerate() {
        for full in [false, true] {
            if q && full && mi != 2 {
                continue;
            }
            let name: &'static str = Box::leak(format!("all_actions_vs_{}{}", mname, if full { "_fullpipes" } else { "" }).into_boxed_str());
            v.push(item(
                build(CP { name, full_pipes: full, mutator: mi as u8, deliveries: 2, bound_steps: if mi == 1 || mi == 4 { steps + 3 * 7 } else if mi == 6 { steps + 3 * 14 } else { steps }, prefill_deliveries: 0 }),
                if mi == 6 { b(1, 2) } else { b(2, 3) },
                "every built-in action installed; deliveries from another thread and nested (up to 2 deep in time) at every operation boundary of the mutator",
            ));
        }
    }
    // the iterators' own self-pipes completely full (nobody drained 400 earlier deliveries; the socket buffer holds 278)
    for (mi, mname) in [(0u8, "registry"), (2u8, "scans_and_recv")] {
        let name: &'static str = Box::leak(format!("selfpipes_full_vs_{}", mname).into_boxed_str());
        v.push(item(
            build(CP { name, full_pipes: true, mutator: mi, deliveries: 2, bound_steps: steps, prefill_deliveries: 400 }),
            b(1, 2),
            "as above after 400 undrained deliveries: the self-pipes of the three iterator instances are full as well",
        ));
    }
    v
}
