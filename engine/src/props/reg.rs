//! C01 / C02 / C04 / C18 (and the registry part of C03): the half-lock in small scope and the
//! process-global registry with kernel-delivered signals.
#![allow(clippy::all)]
use super::{item, Item, Tier};
use crate::sched::{self, Ev, Exec, Monitor, Opts, Scenario, ThreadSpec};
use signal_hook_registry as reg;
use signal_hook_registry::verif as shim;
use std::collections::{HashMap, HashSet};
use std::sync::atomic::{AtomicPtr, Ordering};
use std::sync::{Arc, Mutex};

pub const S1: i32 = libc::SIGUSR1;
pub const S2: i32 = libc::SIGUSR2;

#[derive(Clone, Copy, PartialEq, Debug)]
pub enum Disp {
    Default,
    Ignore,
    Plain,
    Info,
    /// a one-argument handler installed with SA_RESETHAND | SA_NODEFER | SA_ONSTACK | SA_NOCLDSTOP
    PlainOdd,
    /// a three-argument handler installed with SA_SIGINFO | SA_RESETHAND | SA_NODEFER
    InfoOdd,
    /// a one-argument handler that can be switched out while it runs (a scheduling point inside)
    PlainPausing,
    /// SIG_IGN / SIG_DFL stored with SA_SIGINFO in the flags (what C code recycling a struct sigaction produces)
    IgnoreInfoFlag,
    DefaultInfoFlag,
}

impl Disp {
    /// what chaining must do with it
    pub fn kind(self) -> Disp {
        match self {
            Disp::PlainOdd | Disp::PlainPausing => Disp::Plain,
            Disp::InfoOdd => Disp::Info,
            Disp::IgnoreInfoFlag => Disp::Ignore,
            Disp::DefaultInfoFlag => Disp::Default,
            d => d,
        }
    }
}

pub fn set_disposition(sig: i32, d: Disp) {
    unsafe {
        let mut sa: libc::sigaction = std::mem::zeroed();
        match d {
            Disp::Default => sa.sa_sigaction = libc::SIG_DFL,
            Disp::Ignore => sa.sa_sigaction = libc::SIG_IGN,
            Disp::Plain => sa.sa_sigaction = foreign_plain as usize,
            Disp::Info => {
                sa.sa_sigaction = foreign_info as usize;
                sa.sa_flags = libc::SA_SIGINFO;
            }
            Disp::PlainPausing => sa.sa_sigaction = foreign_plain_pausing as usize,
            Disp::PlainOdd => {
                sa.sa_sigaction = foreign_plain as usize;
                sa.sa_flags = libc::SA_RESETHAND | libc::SA_NODEFER | libc::SA_ONSTACK | libc::SA_NOCLDSTOP;
            }
            Disp::InfoOdd => {
                sa.sa_sigaction = foreign_info as usize;
                sa.sa_flags = libc::SA_SIGINFO | libc::SA_RESETHAND | libc::SA_NODEFER;
            }
            Disp::IgnoreInfoFlag => {
                sa.sa_sigaction = libc::SIG_IGN;
                sa.sa_flags = libc::SA_SIGINFO;
            }
            Disp::DefaultInfoFlag => {
                sa.sa_sigaction = libc::SIG_DFL;
                sa.sa_flags = libc::SA_SIGINFO;
            }
        }
        libc::sigaction(sig, &sa, std::ptr::null_mut());
    }
}

extern "C" fn foreign_plain(sig: libc::c_int) {
    sched::log("foreign_plain", sig as u64, 0);
}

extern "C" fn foreign_plain_pausing(sig: libc::c_int) {
    sched::log("foreign_plain", sig as u64, 0);
    sched::point("in_foreign_handler", sig as u64);
}

extern "C" fn foreign_plain2(sig: libc::c_int) {
    sched::log("foreign_plain2", sig as u64, 0);
}

extern "C" fn foreign_info(sig: libc::c_int, info: *mut libc::siginfo_t, ctx: *mut libc::c_void) {
    let signo = if info.is_null() { -1 } else { unsafe { (*info).si_signo } };
    let ok = (!info.is_null() && !ctx.is_null() && signo == sig) as u64;
    sched::log("foreign_info", sig as u64, ok);
}

/// Fresh registry + dispositions (call from scenario setup).
pub fn fresh_registry(disps: &[(i32, Disp)]) {
    let leak = sched::LEAK_NEXT_RESET.load(Ordering::SeqCst);
    shim::reset_registry(leak);
    for &(s, d) in disps {
        set_disposition(s, d);
    }
}

pub fn current_handler(sig: i32) -> (usize, i32) {
    unsafe {
        let mut sa: libc::sigaction = std::mem::zeroed();
        libc::sigaction(sig, std::ptr::null(), &mut sa);
        (sa.sa_sigaction, sa.sa_flags)
    }
}

// ---------------------------------------------------------------------------------------------
// Snapshot monitor (shared by H1 and the registry scenarios)

#[derive(Default)]
pub struct SnapMon {
    live: HashMap<u64, bool>,
    open: HashMap<u64, i32>,
    dropped: HashSet<u64>,
}

impl Monitor for SnapMon {
    fn on_event(&mut self, _ex: &Exec, ev: &Ev) -> Result<(), String> {
        match ev.tag {
            "snapshot_alloc" => {
                self.live.insert(ev.a, true);
                self.open.insert(ev.a, 0);
            }
            "snapshot_open" => {
                if self.live.get(&ev.a) == Some(&false) {
                    return Err("C01: a reader obtained a snapshot that has already been released (use after free)".into());
                }
                *self.open.entry(ev.a).or_insert(0) += 1;
            }
            "snapshot_close" => {
                *self.open.entry(ev.a).or_insert(0) -= 1;
            }
            "snapshot_free" => {
                if self.open.get(&ev.a).copied().unwrap_or(0) > 0 {
                    return Err("C01: a snapshot was released while a reader is still inside its critical section".into());
                }
                match self.live.get(&ev.a) {
                    Some(&false) => return Err("C01: a snapshot was released twice".into()),
                    None => return Ok(()), // allocated before this execution began (registry reset)
                    _ => {}
                }
                if ev.depth > 0 {
                    return Err("C01: a snapshot was released inside a signal handler".into());
                }
                self.live.insert(ev.a, false);
            }
            "touch" | "act_begin" => {
                if self.dropped.contains(&ev.a) {
                    return Err(format!("C01: value/action {} was used after it had been released", ev.a));
                }
            }
            "canary_drop" | "act_drop" => {
                if ev.depth > 0 {
                    return Err(format!("C01: captured state of {} was released inside a signal handler", ev.a));
                }
                if !self.dropped.insert(ev.a) {
                    return Err(format!("C01: captured state of {} was released twice", ev.a));
                }
            }
            _ => {}
        }
        Ok(())
    }
}

// ---------------------------------------------------------------------------------------------
// H1: half-lock in small scope

pub struct Canary(pub u64);
impl Drop for Canary {
    fn drop(&mut self) {
        sched::log("canary_drop", self.0, 0);
    }
}

static HL_PTR: AtomicPtr<shim::HalfLockProbe<Canary>> = AtomicPtr::new(std::ptr::null_mut());

extern "C" fn nested_read(_sig: libc::c_int) {
    let p = HL_PTR.load(Ordering::SeqCst);
    if p.is_null() {
        return;
    }
    let hl = unsafe { &*p };
    let g = hl.read();
    sched::log("touch", g.0, 1);
    drop(g);
}

pub struct H1 {
    hl: Box<shim::HalfLockProbe<Canary>>,
}

#[derive(Clone)]
pub struct H1P {
    pub name: &'static str,
    /// stores per writer
    pub writers: Vec<u32>,
    /// reads per reader
    pub readers: Vec<u32>,
    pub nest_writer: bool,
    pub stale: bool,
}

pub fn build_h1(p: H1P) -> Scenario<Arc<H1>> {
    let setup = move || {
        set_disposition(S1, Disp::Ignore);
        unsafe {
            let mut sa: libc::sigaction = std::mem::zeroed();
            sa.sa_sigaction = nested_read as usize;
            libc::sigaction(S1, &sa, std::ptr::null_mut());
        }
        let hl = Box::new(shim::HalfLockProbe::new(Canary(100)));
        HL_PTR.store(&*hl as *const _ as *mut _, Ordering::SeqCst);
        Arc::new(H1 { hl })
    };
    let mut threads: Vec<ThreadSpec<Arc<H1>>> = Vec::new();
    let wn = ["W1", "W2"];
    for (wi, &k) in p.writers.iter().enumerate() {
        threads.push(ThreadSpec {
            name: wn[wi],
            body: Box::new(move |s: &Arc<H1>| {
                for q in 0..k {
                    let id = (wi as u64 + 1) * 10 + q as u64;
                    sched::log("store_call", id, 0);
                    let mut g = s.hl.write();
                    g.store(Canary(id));
                    drop(g);
                    sched::log("store_ret", id, 0);
                }
            }),
            nest_signals: if p.nest_writer && wi == 0 { vec![S1] } else { vec![] },
            max_nest: 1,
        });
    }
    let rn = ["R1", "R2", "R3"];
    for (ri, &k) in p.readers.iter().enumerate() {
        threads.push(ThreadSpec {
            name: rn[ri],
            body: Box::new(move |s: &Arc<H1>| {
                for _ in 0..k {
                    let g = s.hl.read();
                    sched::log("touch", g.0, 0);
                    sched::point("in_section", 0);
                    drop(g);
                }
            }),
            nest_signals: vec![],
            max_nest: 0,
        });
    }
    let nstores: u32 = p.writers.iter().sum();
    let finish = move |s: Arc<H1>, e: &mut Exec| -> Result<u64, String> {
        HL_PTR.store(std::ptr::null_mut(), Ordering::SeqCst);
        let s = Arc::try_unwrap(s).map_err(|_| "engine: state shared".to_string())?;
        drop(s);
        if !e.panics.is_empty() {
            return Err(format!("C18: half-lock operation panicked: {:?}", e.panics));
        }
        // every canary dropped exactly once; replaced ones by a storing thread inside its store
        let mut drops: HashMap<u64, usize> = HashMap::new();
        let mut open_store: HashMap<u8, bool> = HashMap::new();
        let mut touches: Vec<u64> = Vec::new();
        for ev in &e.log {
            match ev.tag {
                "store_call" => {
                    open_store.insert(ev.tid, true);
                }
                "store_ret" => {
                    open_store.insert(ev.tid, false);
                }
                "canary_drop" => {
                    *drops.entry(ev.a).or_insert(0) += 1;
                    if ev.tid != 0 && open_store.get(&ev.tid) != Some(&true) {
                        return Err(format!("C01: value {} was released by a thread that is not inside a store (thread {})", ev.a, ev.tid));
                    }
                }
                "touch" => touches.push(ev.a | ((ev.tid as u64) << 32)),
                _ => {}
            }
        }
        let total: usize = drops.values().sum();
        if total != nstores as usize + 1 || drops.values().any(|&c| c != 1) {
            return Err(format!("C01: {} values created but drop counts are {:?}", nstores + 1, drops));
        }
        let mut h: u64 = 0xcbf29ce484222325;
        for t in touches {
            h ^= t.wrapping_add(0x9e3779b97f4a7c15);
            h = h.wrapping_mul(0x100000001b3);
        }
        Ok(h)
    };
    Scenario {
        name: p.name.to_string(),
        opts: Opts { stale_reads: p.stale, stale_depth: 3, max_spurious: 0, horizon: 5_000, log_ops: false, log_handler_ops: false, reduce: false, no_discipline: false, nest_value_t1: 0, post_points: false, no_race_check: false, start_points: false, endurance: 0 },
        signals: vec![S1],
        setup: Box::new(setup),
        threads,
        finish: Box::new(finish),
        monitor: Some(Box::new(|| Box::new(SnapMon::default()) as Box<dyn Monitor>)),
    }
}

// ---------------------------------------------------------------------------------------------
// H1 endurance: a reader that is inside its section and is not scheduled for a long time (a thread the
// operating system has taken off the processor). The writer may spin as long as it likes but must
// neither return nor release the old value; when the reader finally leaves, the writer finishes and
// releases it. One execution (the order is forced by the harness), `rounds` barrier rounds long.

pub struct H1E {
    hl: Box<shim::HalfLockProbe<Canary>>,
    /// reader -> writer: "I am inside"; harness -> reader: "go on"
    inside: [i32; 2],
    go: [i32; 2],
}

pub fn build_h1_endurance(name: &'static str, rounds: u64) -> Scenario<Arc<H1E>> {
    let setup = move || {
        set_disposition(S1, Disp::Ignore);
        let hl = Box::new(shim::HalfLockProbe::new(Canary(100)));
        let mut a = [0i32; 2];
        let mut b = [0i32; 2];
        unsafe {
            libc::pipe(a.as_mut_ptr());
            libc::pipe(b.as_mut_ptr());
        }
        Arc::new(H1E { hl, inside: a, go: b })
    };
    let w = ThreadSpec {
        name: "W",
        body: Box::new(move |s: &Arc<H1E>| {
            sched::wait_readable(s.inside[0]);
            sched::log("store_call", 10, 0);
            let mut g = s.hl.write();
            g.store(Canary(10));
            drop(g);
            sched::log("store_ret", 10, 0);
        }),
        nest_signals: vec![],
        max_nest: 0,
    };
    let r = ThreadSpec {
        name: "R",
        body: Box::new(move |s: &Arc<H1E>| {
            let g = s.hl.read();
            sched::log("touch", g.0, 0);
            unsafe {
                libc::write(s.inside[1], b"x".as_ptr() as *const _, 1);
            }
            sched::wait_readable(s.go[0]);
            sched::log("touch", g.0, 0);
            drop(g);
            sched::log("section_left", 0, 0);
        }),
        nest_signals: vec![],
        max_nest: 0,
    };
    let q = ThreadSpec {
        name: "Q",
        body: Box::new(move |s: &Arc<H1E>| {
            sched::await_quiescence();
            sched::log("reader_released", 0, 0);
            unsafe {
                libc::write(s.go[1], b"x".as_ptr() as *const _, 1);
            }
        }),
        nest_signals: vec![],
        max_nest: 0,
    };
    let finish = move |s: Arc<H1E>, e: &mut Exec| -> Result<u64, String> {
        let s = Arc::try_unwrap(s).map_err(|_| "engine: state shared".to_string())?;
        for fd in s.inside.iter().chain(s.go.iter()) {
            unsafe {
                libc::close(*fd);
            }
        }
        drop(s);
        if !e.panics.is_empty() {
            return Err(format!("C18: half-lock operation panicked: {:?}", e.panics));
        }
        let pos = |tag: &str, a: u64| e.log.iter().position(|ev| ev.tag == tag && (a == u64::MAX || ev.a == a));
        let left = pos("section_left", u64::MAX).ok_or("engine: reader did not finish")?;
        let released = pos("reader_released", u64::MAX).ok_or("engine: the reader was never released")?;
        let ret = pos("store_ret", 10).ok_or("C18: the store never returned")?;
        let spins = e.log[..released].iter().filter(|ev| ev.tag == "yield" || ev.tag == "spin_hint").count() as u64;
        if ret < left {
            return Err(format!("C01: a store returned while a reader that had entered before it was still inside its section (after {} rounds of waiting)", spins));
        }
        match pos("canary_drop", 100) {
            None => return Err(format!("C01: the replaced value was never released although the store returned after the last reader had left (the writer gave up waiting after at most {} rounds and leaked it)", spins)),
            Some(d) => {
                if d < left {
                    return Err("C01: the replaced value was released while a reader was still inside its section".into());
                }
                if d > ret {
                    return Err("C01: the replaced value was released only after the store had returned".into());
                }
            }
        }
        if spins < rounds {
            return Err(format!("engine: the endurance run let the writer wait only {} rounds (wanted {})", spins, rounds));
        }
        Ok(1)
    };
    Scenario {
        name: name.to_string(),
        opts: Opts { stale_reads: false, stale_depth: 2, max_spurious: 0, horizon: 16 * rounds + 10_000, log_ops: false, log_handler_ops: false, reduce: false, no_discipline: false, nest_value_t1: 0, post_points: false, no_race_check: false, start_points: false, endurance: rounds },
        signals: vec![S1],
        setup: Box::new(setup),
        threads: vec![w, r, q],
        finish: Box::new(finish),
        monitor: Some(Box::new(|| Box::new(SnapMon::default()) as Box<dyn Monitor>)),
    }
}

// ---------------------------------------------------------------------------------------------
// Registry endurance: a delivery is stalled inside its first action (thread off the processor) while
// a later action of the same signal is being removed. The removal may take as long as it likes; once
// it has returned the removed action must not run any more - not even in the stalled delivery - and
// what it captured has been released. One forced schedule, `rounds` barrier rounds long.

pub struct RegE {
    inside: [i32; 2],
    go: [i32; 2],
    id1: reg::SigId,
    id2: Mutex<Option<reg::SigId>>,
}

pub fn build_reg_endurance(name: &'static str, prop: &'static str, rounds: u64) -> Scenario<Arc<RegE>> {
    let setup = move || {
        fresh_registry(&[(S1, Disp::Ignore), (S2, Disp::Ignore)]);
        let mut a = [0i32; 2];
        let mut b = [0i32; 2];
        unsafe {
            libc::pipe(a.as_mut_ptr());
            libc::pipe(b.as_mut_ptr());
        }
        let (inside_w, go_r) = (a[1], b[0]);
        let c1 = ActCanary(1);
        let id1 = unsafe {
            reg::register(S1, move || {
                let c = &c1;
                sched::log("act_begin", c.0, 0);
                libc::write(inside_w, b"x".as_ptr() as *const _, 1);
                sched::wait_readable(go_r);
                sched::log("act_end", c.0, 0);
            })
        }
        .expect("register");
        let id2 = unsafe { reg::register(S1, make_action(2, false)) }.expect("register");
        Arc::new(RegE { inside: a, go: b, id1, id2: Mutex::new(Some(id2)) })
    };
    let d = ThreadSpec {
        name: "D",
        body: Box::new(move |_s: &Arc<RegE>| {
            sched::raise(S1);
        }),
        nest_signals: vec![],
        max_nest: 0,
    };
    let m = ThreadSpec {
        name: "M",
        body: Box::new(move |s: &Arc<RegE>| {
            sched::wait_readable(s.inside[0]);
            let id = s.id2.lock().unwrap().take().unwrap();
            sched::log("unreg_call", 2, 0);
            let r = reg::unregister(id);
            sched::log("unreg_ret", 2, r as u64);
        }),
        nest_signals: vec![],
        max_nest: 0,
    };
    let q = ThreadSpec {
        name: "Q",
        body: Box::new(move |s: &Arc<RegE>| {
            sched::await_quiescence();
            sched::log("delivery_released", 0, 0);
            unsafe {
                libc::write(s.go[1], b"x".as_ptr() as *const _, 1);
            }
        }),
        nest_signals: vec![],
        max_nest: 0,
    };
    let finish = move |s: Arc<RegE>, e: &mut Exec| -> Result<u64, String> {
        let s = Arc::try_unwrap(s).map_err(|_| "engine: state shared".to_string())?;
        reg::unregister(s.id1);
        for fd in s.inside.iter().chain(s.go.iter()) {
            unsafe {
                libc::close(*fd);
            }
        }
        drop(s);
        if !e.panics.is_empty() {
            return Err(format!("C18: panicked: {:?}", e.panics));
        }
        let pos = |tag: &str, a: u64| e.log.iter().position(|ev| ev.tag == tag && ev.a == a);
        let released = pos("delivery_released", 0).ok_or("engine: the stalled delivery was never released")?;
        let ret = pos("unreg_ret", 2).ok_or("C18: unregister never returned")?;
        if e.log[ret].b == 0 {
            return Err(format!("{}: unregister of an action whose registration had returned answered false (it was never in the registry)", prop));
        }
        let spins = e.log[..released].iter().filter(|ev| ev.tag == "yield" || ev.tag == "spin_hint").count() as u64;
        if let Some(b2) = e.log.iter().position(|ev| ev.tag == "act_begin" && ev.a == 2) {
            if b2 > ret {
                return Err(format!("{}: action 2 ran after its removal had returned (the removal gave up waiting for a delivery that was stalled in an earlier action, after at most {} rounds)", prop, spins));
            }
        }
        match pos("act_drop", 2) {
            None => return Err(format!("C01: what action 2 captured was never released although its removal returned (after at most {} rounds of waiting)", spins)),
            Some(dr) => {
                if dr > ret {
                    return Err("C01: what action 2 captured was released only after its removal had returned".into());
                }
            }
        }
        if spins < rounds {
            return Err(format!("engine: the endurance run let the remover wait only {} rounds (wanted {})", spins, rounds));
        }
        Ok(1)
    };
    Scenario {
        name: name.to_string(),
        opts: Opts { stale_reads: false, stale_depth: 2, max_spurious: 0, horizon: 16 * rounds + 10_000, log_ops: false, log_handler_ops: false, reduce: false, no_discipline: true, nest_value_t1: 0, post_points: false, no_race_check: false, start_points: false, endurance: rounds },
        signals: vec![S1, S2],
        setup: Box::new(setup),
        threads: vec![d, m, q],
        finish: Box::new(finish),
        monitor: Some(Box::new(|| Box::new(SnapMon::default()) as Box<dyn Monitor>)),
    }
}

// ---------------------------------------------------------------------------------------------
// Registry scenarios

pub struct ActCanary(pub u64);
impl Drop for ActCanary {
    fn drop(&mut self) {
        sched::log("act_drop", self.0, 0);
    }
}

#[derive(Clone, Debug)]
pub enum MOp {
    Reg(i32, u64),
    Unreg(u64),
    UnregSig(i32),
    /// register a forbidden signal (panics), caught by the harness
    RegForbidden,
    /// registration through register_sigaction (the action gets the siginfo)
    RegInfo(i32, u64),
    /// registration through the unchecked entry point (the only way to hook SIGFPE / SIGILL / SIGSEGV)
    RegUnchecked(i32, u64),
    /// a refused unchecked registration whose action owns a guard that unregisters action `tag` when it is
    /// destroyed (the destructor of a refused action re-enters the registry)
    RegRefusedGuard(u64),
    /// an unchecked registration the OS refuses (SIGKILL: its disposition can be read, not changed)
    RegRefused,
    /// other code sets the signal to be ignored for a while, remembering what was installed (what
    /// system(3) does with SIGINT / SIGQUIT) ...
    OverrideIgn(i32),
    /// ... and puts back what it remembered
    RestoreSaved(i32),
}

pub struct RS {
    ids: Mutex<HashMap<u64, reg::SigId>>,
    saved: Mutex<Option<libc::sigaction>>,
}

fn make_action(tag: u64, pause: bool) -> impl Fn() + Send + Sync + 'static {
    let c = ActCanary(tag);
    move || {
        let c = &c; // capture the whole canary (edition-2021 closures capture disjoint fields)
        sched::log("act_begin", c.0, 0);
        if pause {
            sched::point("in_action", c.0);
        }
        sched::log("act_end", c.0, 0);
    }
}

fn run_mops(s: &RS, ops: &[MOp], pause: bool) {
    for op in ops {
        match op {
            MOp::Reg(sig, tag) => {
                sched::log("reg_call", *tag, *sig as u64);
                let id = unsafe { reg::register(*sig, make_action(*tag, pause)) }.expect("register");
                s.ids.lock().unwrap().insert(*tag, id);
                {
                    use std::hash::{Hash, Hasher};
                    let mut h = std::collections::hash_map::DefaultHasher::new();
                    id.hash(&mut h);
                    sched::log("reg_id", *tag, h.finish());
                }
                sched::log("reg_ret", *tag, *sig as u64);
            }
            MOp::Unreg(tag) => {
                let id = s.ids.lock().unwrap().get(tag).copied();
                if let Some(id) = id {
                    sched::log("unreg_call", *tag, 0);
                    let r = reg::unregister(id);
                    sched::log("unreg_ret", *tag, r as u64);
                }
            }
            MOp::UnregSig(sig) => {
                sched::log("unregsig_call", *sig as u64, 0);
                #[allow(deprecated)]
                let r = reg::unregister_signal(*sig);
                sched::log("unregsig_ret", *sig as u64, r as u64);
            }
            MOp::RegForbidden => {
                sched::log("regforbidden_call", 0, 0);
                let r = std::panic::catch_unwind(|| unsafe { reg::register(libc::SIGKILL, || ()) });
                sched::log("regforbidden_ret", r.is_err() as u64, 0);
            }
            MOp::RegInfo(sig, tag) => {
                sched::log("reg_call", *tag, *sig as u64);
                let act = make_action(*tag, pause);
                let want = *sig;
                let id = unsafe {
                    reg::register_sigaction(*sig, move |info| {
                        if info.si_signo != want {
                            sched::log("bad_siginfo", info.si_signo as u64, want as u64);
                        }
                        act()
                    })
                }
                .expect("register_sigaction");
                s.ids.lock().unwrap().insert(*tag, id);
                sched::log("reg_ret", *tag, *sig as u64);
            }
            MOp::RegUnchecked(sig, tag) => {
                sched::log("reg_call", *tag, *sig as u64);
                let act = make_action(*tag, pause);
                let id = unsafe { reg::register_unchecked(*sig, move |_| act()) }.expect("register_unchecked");
                s.ids.lock().unwrap().insert(*tag, id);
                sched::log("reg_ret", *tag, *sig as u64);
            }
            MOp::RegRefusedGuard(tag) => {
                struct Guard(Option<reg::SigId>, u64);
                impl Drop for Guard {
                    fn drop(&mut self) {
                        sched::log("unreg_call", self.1, 0);
                        let r = self.0.take().map_or(false, reg::unregister);
                        sched::log("unreg_ret", self.1, r as u64);
                    }
                }
                let g = Guard(s.ids.lock().unwrap().get(tag).copied(), *tag);
                sched::log("regrefused_call", 1, 0);
                let r = unsafe {
                    reg::register_unchecked(libc::SIGKILL, move |_| {
                        let _ = &g;
                    })
                };
                sched::log("regrefused_ret", r.is_err() as u64, 1);
            }
            MOp::OverrideIgn(sig) => unsafe {
                let mut new: libc::sigaction = std::mem::zeroed();
                new.sa_sigaction = libc::SIG_IGN;
                let mut old: libc::sigaction = std::mem::zeroed();
                libc::sigaction(*sig, &new, &mut old);
                *s.saved.lock().unwrap() = Some(old);
            },
            MOp::RestoreSaved(sig) => unsafe {
                if let Some(old) = s.saved.lock().unwrap().take() {
                    libc::sigaction(*sig, &old, std::ptr::null_mut());
                }
            },
            MOp::RegRefused => {
                sched::log("regrefused_call", 0, 0);
                let r = unsafe { reg::register_unchecked(libc::SIGKILL, |_| ()) };
                sched::log("regrefused_ret", r.is_err() as u64, 0);
            }
        }
    }
}

#[derive(Clone)]
pub struct RP {
    pub name: &'static str,
    pub prop: &'static str,
    /// Pre-existing dispositions
    pub disps: Vec<(i32, Disp)>,
    /// Operations performed in setup (single-threaded)
    pub pre: Vec<MOp>,
    pub mutators: Vec<Vec<MOp>>,
    /// per delivery thread: signals raised in order
    pub deliverers: Vec<Vec<i32>>,
    /// nested arrivals on mutator 0 / on all mutators
    pub nest: Vec<i32>,
    pub max_nest: u32,
    pub pause_in_action: bool,
    pub stale: bool,
    /// max own steps of one delivery without failed CAS (C03)
    pub max_delivery_steps: u64,
    /// C04: another thread installs a handler of its own for this signal with a plain sigaction call, at
    /// any instant before the library's handler is the disposition
    pub foreign_installer: Option<i32>,
    /// before the scenario proper, an action whose captured value panics when it is destroyed is removed
    /// (the panic is caught): the registry's writer mutex is poisoned from then on
    pub poison_first: bool,
}

struct Delivery {
    begin: usize,
    end: usize,
    sig: i32,
    acts: Vec<(u64, usize)>,
    foreign: Vec<(usize, &'static str, u64)>,
    steps: u64,
    solo: bool,
}

fn parse_deliveries(log: &[Ev]) -> Vec<Delivery> {
    let mut out: Vec<Delivery> = Vec::new();
    let mut stack: HashMap<u8, Vec<usize>> = HashMap::new();
    for (i, ev) in log.iter().enumerate() {
        match ev.tag {
            "deliver_begin" => {
                out.push(Delivery { begin: i, end: usize::MAX, sig: ev.a as i32, acts: vec![], foreign: vec![], steps: 0, solo: false });
                stack.entry(ev.tid).or_default().push(out.len() - 1);
            }
            "deliver_end" => {
                if let Some(d) = stack.entry(ev.tid).or_default().pop() {
                    out[d].end = i;
                    out[d].steps = ev.b >> 1;
                    out[d].solo = ev.b & 1 == 1;
                }
            }
            "act_begin" => {
                if let Some(&d) = stack.get(&ev.tid).and_then(|s| s.last()) {
                    out[d].acts.push((ev.a, i));
                }
            }
            "foreign_plain" | "foreign_info" | "foreign_plain2" => {
                if let Some(&d) = stack.get(&ev.tid).and_then(|s| s.last()) {
                    out[d].foreign.push((i, ev.tag, ev.b));
                }
            }
            _ => {}
        }
    }
    out
}

struct ActInfo {
    sig: i32,
    reg_call: usize,
    reg_ret: usize,
    rm_call: usize,
    rm_ret: usize,
}

fn check_registry(log: &[Ev], p: &RP, e: &Exec) -> Result<u64, String> {
    let deliveries = parse_deliveries(log);
    let mut acts: HashMap<u64, ActInfo> = HashMap::new();
    // order of registration per signal (tags in the order their ids were handed out == reg_ret order per single mutator)
    for (i, ev) in log.iter().enumerate() {
        match ev.tag {
            "reg_call" => {
                acts.insert(ev.a, ActInfo { sig: ev.b as i32, reg_call: i, reg_ret: usize::MAX, rm_call: usize::MAX, rm_ret: usize::MAX });
            }
            "reg_ret" => {
                acts.get_mut(&ev.a).unwrap().reg_ret = i;
            }
            "unreg_call" => {
                if let Some(a) = acts.get_mut(&ev.a) {
                    if a.rm_call == usize::MAX {
                        a.rm_call = i;
                    }
                }
            }
            "unreg_ret" => {
                if let Some(a) = acts.get_mut(&ev.a) {
                    if a.rm_ret == usize::MAX {
                        a.rm_ret = i;
                    }
                }
            }
            "unregsig_call" => {
                for a in acts.values_mut() {
                    if a.sig == ev.a as i32 && a.reg_ret < i && a.rm_call == usize::MAX {
                        a.rm_call = i;
                    }
                }
            }
            "unregsig_ret" => {
                for a in acts.values_mut() {
                    if a.sig == ev.a as i32 && a.rm_call != usize::MAX && a.rm_ret == usize::MAX {
                        a.rm_ret = i;
                    }
                }
            }
            _ => {}
        }
    }
    // --- C01: quiescence at the moment removal returns
    if p.prop == "C01" {
        for (tag, a) in &acts {
            if a.rm_ret == usize::MAX {
                continue;
            }
            let mut in_progress = 0i32;
            let mut dropped_at: Option<(usize, u8, u8)> = None;
            for (i, ev) in log.iter().enumerate() {
                if ev.a != *tag {
                    continue;
                }
                match ev.tag {
                    "act_begin" => {
                        if i > a.rm_ret {
                            return Err(format!("C01: action {} was invoked after its removal had returned", tag));
                        }
                        in_progress += 1;
                    }
                    "act_end" => {
                        in_progress -= 1;
                        if i > a.rm_ret {
                            return Err(format!("C01: an invocation of action {} was still in progress when its removal returned", tag));
                        }
                    }
                    "act_drop" => dropped_at = Some((i, ev.tid, ev.depth)),
                    _ => {}
                }
            }
            let _ = in_progress;
            match dropped_at {
                None => return Err(format!("C01: state captured by action {} was never released after removal", tag)),
                Some((i, tid, _)) => {
                    if i > a.rm_ret {
                        return Err(format!("C01: state captured by action {} was released only after its removal had returned", tag));
                    }
                    if i < a.rm_ret && tid != log[a.rm_ret].tid {
                        return Err(format!("C01: state captured by action {} was released by thread {} instead of the removing thread {}", tag, tid, log[a.rm_ret].tid));
                    }
                }
            }
        }
    }
    // --- C02: each delivery runs exactly one consistent snapshot, in order
    if p.prop == "C02" {
        for d in &deliveries {
            if d.end == usize::MAX {
                return Err("C03: a delivery never returned".into());
            }
            let ran: Vec<u64> = d.acts.iter().map(|x| x.0).collect();
            // no duplicates, only this signal's actions, in registration order
            for (k, t) in ran.iter().enumerate() {
                let a = acts.get(t).ok_or_else(|| format!("C02: unknown action {} ran", t))?;
                if a.sig != d.sig {
                    return Err(format!("C02: action {} registered for signal {} ran in a delivery of signal {}", t, a.sig, d.sig));
                }
                if ran[..k].contains(t) {
                    return Err(format!("C02: action {} ran twice in one delivery", t));
                }
                if k > 0 && acts[&ran[k - 1]].reg_call > a.reg_call {
                    return Err(format!("C02: actions ran out of registration order ({} before {})", ran[k - 1], t));
                }
            }
            // no action runs whose removal had returned - not even in a delivery that began before
            for (t, at) in &d.acts {
                if let Some(a) = acts.get(t) {
                    if a.rm_ret != usize::MAX && *at > a.rm_ret {
                        return Err(format!("C02: action {} was run after its removal had returned (by a delivery that had begun before)", t));
                    }
                }
            }
            for (t, a) in &acts {
                if a.sig != d.sig {
                    continue;
                }
                let must = a.reg_ret < d.begin && (a.rm_call == usize::MAX || a.rm_call > d.end);
                let must_not = a.reg_call > d.end || (a.rm_ret != usize::MAX && a.rm_ret < d.begin);
                if must && !ran.contains(t) {
                    return Err(format!("C02: action {} was registered before the delivery began and not removed until after it ended, but did not run", t));
                }
                if must_not && ran.contains(t) {
                    return Err(format!("C02: action {} ran in a delivery although it was not registered at any instant of it", t));
                }
            }
            // consistent snapshot: the set must equal the live set at some instant within [begin, end]
            // (mutations on one signal are made by one thread here, so the live sets form a chain)
            let mut times: Vec<usize> = vec![d.begin];
            for a in acts.values() {
                if a.sig == d.sig {
                    for &t in &[a.reg_call, a.reg_ret, a.rm_call, a.rm_ret] {
                        if t != usize::MAX && t > d.begin && t < d.end {
                            times.push(t);
                        }
                    }
                }
            }
            let mut ok = false;
            // candidate states: for every subset choice of in-flight mutations applied in program order
            // -> enumerate chain points: state after k of the mutations that overlap/ precede
            let mut muts: Vec<(usize, usize, u64, bool)> = Vec::new(); // (call, ret, tag, is_add)
            for (t, a) in &acts {
                if a.sig != d.sig {
                    continue;
                }
                muts.push((a.reg_call, a.reg_ret, *t, true));
                if a.rm_call != usize::MAX {
                    muts.push((a.rm_call, a.rm_ret, *t, false));
                }
            }
            muts.sort();
            // chain of states S_0..S_n applying muts in call order
            let lo = muts.iter().filter(|m| m.1 < d.begin).count();
            let hi = muts.iter().filter(|m| m.0 < d.end).count();
            for k in lo..=hi {
                let mut set: Vec<u64> = Vec::new();
                for m in &muts[..k] {
                    if m.3 {
                        set.push(m.2);
                    } else {
                        set.retain(|x| *x != m.2);
                    }
                }
                let mut r = ran.clone();
                r.sort();
                set.sort();
                if r == set {
                    ok = true;
                    break;
                }
            }
            let _ = times;
            if !ok {
                return Err(format!("C02: a delivery of signal {} ran actions {:?}, which is not the action list of any registry state current during that delivery", d.sig, ran));
            }
        }
    }
    // --- C02 / C05: unregister_signal removes all actions of the signal in one step
    if p.prop == "C02" || p.prop == "C05" {
        let calls: Vec<(usize, i32)> = log.iter().enumerate().filter(|(_, e)| e.tag == "unregsig_call").map(|(i, e)| (i, e.a as i32)).collect();
        for (ci, sig) in calls {
            let all: Vec<(u64, usize)> = acts.iter().filter(|(_, a)| a.sig == sig && a.rm_call == ci).map(|(t, a)| (*t, a.reg_ret)).collect();
            for d in deliveries.iter().filter(|d| d.sig == sig) {
                // the actions whose registration had returned before this delivery began (later ones may
                // legitimately be missing from the state it ran)
                let group: Vec<u64> = all.iter().filter(|(_, r)| *r < d.begin).map(|(t, _)| *t).collect();
                if group.len() < 2 {
                    continue;
                }
                let ran = group.iter().filter(|t| d.acts.iter().any(|x| x.0 == **t)).count();
                if ran != 0 && ran != group.len() {
                    return Err(format!("{}: a delivery of signal {} ran {} of the {} actions that one unregister_signal call removed together - a registry state that never existed (the bulk removal is not one step)", p.prop, sig, ran, group.len()));
                }
            }
        }
    }
    // --- C04: chaining of the previous handler
    if p.prop == "C04" {
        for d in &deliveries {
            let disp = p.disps.iter().find(|x| x.0 == d.sig).map(|x| x.1.kind()).unwrap_or(Disp::Ignore);
            match disp {
                Disp::Plain | Disp::Info => {
                    if d.foreign.len() != 1 {
                        return Err(format!("C04: the pre-existing handler of signal {} ran {} times in one delivery (must be exactly once)", d.sig, d.foreign.len()));
                    }
                    let (fi, ftag, fok) = d.foreign[0];
                    if p.foreign_installer == Some(d.sig) {
                        // the handler that was installed when the library took the signal over - or, before
                        // that, whatever the disposition is - is the last one installed before this delivery
                        let replaced = log[..d.begin].iter().any(|e| e.tag == "foreign2_installed" && e.a as i32 == d.sig);
                        let want = if replaced { "foreign_plain2" } else if disp == Disp::Plain { "foreign_plain" } else { "foreign_info" };
                        if ftag != want {
                            let registered = acts.values().any(|a| a.sig == d.sig && a.reg_ret < d.begin);
                            if registered {
                                return Err(format!("C04: a delivery of signal {} that began after the first registration had returned chained {} although {} was the handler installed when the library took the signal over", d.sig, ftag, want));
                            }
                            return Err(format!("C04w: a delivery of signal {} inside its first registration chained the handler that a concurrent sigaction had replaced before the take-over ({} instead of {}): the fallback holds the disposition looked up earlier", d.sig, ftag, want));
                        }
                        continue;
                    }
                    if let Some(first_act) = d.acts.first() {
                        if first_act.1 < fi {
                            return Err(format!("C04: a registered action ran before the pre-existing handler of signal {}", d.sig));
                        }
                    }
                    let want = if disp == Disp::Plain { "foreign_plain" } else { "foreign_info" };
                    if ftag != want {
                        return Err("C04: pre-existing handler called with the wrong convention".into());
                    }
                    if disp == Disp::Info && fok != 1 {
                        return Err("C04: pre-existing three-argument handler did not get the kernel's info/context".into());
                    }
                }
                _ => {
                    if !d.foreign.is_empty() {
                        return Err("C04: a foreign handler ran although the previous disposition was default/ignore".into());
                    }
                }
            }
        }
        // after the first registration returned the library's handler is the disposition
        for a in acts.values() {
            if a.reg_ret != usize::MAX {
                let (h, flags) = current_handler(a.sig);
                if h != shim::handler_address() || flags & libc::SA_SIGINFO == 0 || flags & libc::SA_RESTART == 0 {
                    return Err(format!("C04: after registration the disposition of signal {} is not the library's handler with SA_SIGINFO|SA_RESTART", a.sig));
                }
                if flags & libc::SA_RESETHAND != 0 {
                    return Err(format!("C04: the library's handler for signal {} is installed one-shot (flags {:#x}): SA_RESETHAND of the previous handler was taken over, so it will not stay installed", a.sig, flags));
                }
            }
        }
    }
    // --- C05 (schedules): independence and unique ids under concurrent mutators
    if p.prop == "C05" {
        // every id handed out is distinct (the harness logs a hash of each SigId with reg_ret)
        let mut seen: Vec<u64> = Vec::new();
        for ev in log {
            if ev.tag == "reg_id" {
                if seen.contains(&ev.b) {
                    return Err(format!("C05: registration of action {} returned an id that had been handed out before", ev.a));
                }
                seen.push(ev.b);
            }
            if ev.tag == "unreg_ret" && ev.b == 0 && ev.tid != 0 {
                // the mutators here only remove actions that are registered and that nobody else removes
                return Err(format!("C05: unregister of the live action {} returned false", ev.a));
            }
        }
        // each probe delivery made by the finish phase runs exactly the live actions, in order
        for d in deliveries.iter().filter(|d| log[d.begin].tid == 0) {
            let ran: Vec<u64> = d.acts.iter().map(|x| x.0).collect();
            let mut want: Vec<(usize, u64)> = acts.iter().filter(|(_, a)| a.sig == d.sig && a.reg_ret < d.begin && (a.rm_ret == usize::MAX || a.rm_ret > d.end)).map(|(t, a)| (a.reg_call, *t)).collect();
            want.sort();
            let want: Vec<u64> = want.into_iter().map(|x| x.1).collect();
            let mut r2 = ran.clone();
            r2.sort();
            let mut w2 = want.clone();
            w2.sort();
            if r2 != w2 {
                return Err(format!("C05: after concurrent mutators returned, a delivery of signal {} runs actions {:?} but the registered ones are {:?} (an operation on one action / signal changed another)", d.sig, ran, want));
            }
        }
    }
    // --- C03 (registry part): step bound of solo deliveries
    if p.prop == "C03" {
        for d in &deliveries {
            if d.end == usize::MAX {
                return Err("C03: a delivery never returned".into());
            }
            if d.solo && d.steps > p.max_delivery_steps {
                return Err(format!("C03: a delivery running alone took {} own steps (bound {})", d.steps, p.max_delivery_steps));
            }
        }
    }
    // --- C18: every mutator returned (engine reports deadlock/livelock itself); unexpected panics
    for (t, m) in &e.panics {
        return Err(format!("{}: thread {} panicked unexpectedly: {}", if p.prop == "C18" { "C18" } else { "C18" }, t, m));
    }
    // digest: per delivery the actions run + foreign count
    let mut h: u64 = 0xcbf29ce484222325;
    let mut mix = |x: u64| {
        h ^= x.wrapping_add(0x9e3779b97f4a7c15);
        h = h.wrapping_mul(0x100000001b3);
    };
    for d in &deliveries {
        mix(d.sig as u64);
        for a in &d.acts {
            mix(a.0);
        }
        mix(0xf0 + d.foreign.len() as u64);
    }
    Ok(h)
}

pub fn build_reg(p: RP) -> Scenario<Arc<RS>> {
    let pp = p.clone();
    let setup = move || {
        fresh_registry(&pp.disps);
        if pp.poison_first {
            struct Bomb;
            impl Drop for Bomb {
                fn drop(&mut self) {
                    if !std::thread::panicking() {
                        panic!("a captured value panics when it is destroyed");
                    }
                }
            }
            let b = Bomb;
            let id = unsafe { reg::register(S2, move || { let _ = &b; }) }.expect("register");
            let r = std::panic::catch_unwind(|| reg::unregister(id));
            assert!(r.is_err(), "the removal was expected to unwind");
        }
        let s = RS { ids: Mutex::new(HashMap::new()), saved: Mutex::new(None) };
        run_mops(&s, &pp.pre, pp.pause_in_action);
        Arc::new(s)
    };
    let mut threads: Vec<ThreadSpec<Arc<RS>>> = Vec::new();
    let mn = ["M1", "M2", "M3"];
    for (mi, ops) in p.mutators.iter().enumerate() {
        let ops = ops.clone();
        let pause = p.pause_in_action;
        threads.push(ThreadSpec {
            name: mn[mi],
            body: Box::new(move |s: &Arc<RS>| run_mops(s, &ops, pause)),
            nest_signals: if mi == 0 { p.nest.clone() } else { vec![] },
            max_nest: p.max_nest,
        });
    }
    if let Some(fsig) = p.foreign_installer {
        threads.push(ThreadSpec {
            name: "F",
            body: Box::new(move |_s: &Arc<RS>| {
                sched::point("foreign_check", fsig as u64);
                // one step: look and install (nothing else runs in between)
                if current_handler(fsig).0 != shim::handler_address() {
                    unsafe {
                        let mut sa: libc::sigaction = std::mem::zeroed();
                        sa.sa_sigaction = foreign_plain2 as usize;
                        libc::sigaction(fsig, &sa, std::ptr::null_mut());
                    }
                    sched::log("foreign2_installed", fsig as u64, 0);
                }
            }),
            nest_signals: vec![],
            max_nest: 0,
        });
    }
    let dn = ["D1", "D2", "D3"];
    for (di, sigs) in p.deliverers.iter().enumerate() {
        let sigs = sigs.clone();
        threads.push(ThreadSpec {
            name: dn[di],
            body: Box::new(move |_s: &Arc<RS>| {
                for &sg in &sigs {
                    sched::raise(sg);
                }
            }),
            nest_signals: vec![],
            max_nest: 0,
        });
    }
    let pf = p.clone();
    let finish = move |s: Arc<RS>, e: &mut Exec| -> Result<u64, String> {
        if pf.prop == "C05" {
            for sg in [S1, S2] {
                sched::setup_raise(sg);
            }
        }
        // remove whatever is left so that end-state accounting applies
        let ids: Vec<(u64, reg::SigId)> = s.ids.lock().unwrap().iter().map(|(k, v)| (*k, *v)).collect();
        for (tag, id) in ids {
            sched::log("unreg_call", tag, 1);
            let r = reg::unregister(id);
            sched::log("unreg_ret", tag, r as u64);
        }
        let mut created: HashSet<u64> = HashSet::new();
        let mut drops: HashMap<u64, u32> = HashMap::new();
        for ev in &e.log {
            match ev.tag {
                "reg_ret" => {
                    created.insert(ev.a);
                }
                "act_drop" => *drops.entry(ev.a).or_insert(0) += 1,
                _ => {}
            }
        }
        if pf.prop == "C01" {
            for t in &created {
                if drops.get(t).copied().unwrap_or(0) != 1 {
                    return Err(format!("C01: state captured by action {} was released {} times after everything was removed", t, drops.get(t).copied().unwrap_or(0)));
                }
            }
        }
        check_registry(&e.log, &pf, e)
    };
    Scenario {
        name: p.name.to_string(),
        // C02 judges which actions a delivery ran: its executions go on past a release that came too
        // early (C01's monitors would stop them there, in a class C02 does not own)
        opts: Opts { stale_reads: p.stale, stale_depth: 3, max_spurious: 0, horizon: 20_000, log_ops: false, log_handler_ops: false, reduce: false, no_discipline: false, nest_value_t1: 0, post_points: false, no_race_check: p.prop == "C02", start_points: false, endurance: 0 },
        signals: vec![S1, S2],
        setup: Box::new(setup),
        threads,
        finish: Box::new(finish),
        monitor: if p.prop == "C02" { None } else { Some(Box::new(|| Box::new(SnapMon::default()) as Box<dyn Monitor>)) },
    }
}

// ---------------------------------------------------------------------------------------------
// Relay scenarios (C18): deliveries / read sections overlap so that one is always in flight until
// the mutator is done; each of them is finite. The mutator must still finish.

pub struct Relay {
    hl: Box<shim::HalfLockProbe<Canary>>,
    started: shim::atomic::AtomicUsize,
    done: shim::atomic::AtomicBool,
}

fn relay_section(started: &shim::atomic::AtomicUsize, done: &shim::atomic::AtomicBool) {
    use shim::atomic::Ordering::SeqCst;
    let my = started.fetch_add(1, SeqCst) + 1;
    // return only after a later section / delivery has started (or the mutator is done)
    while started.load(SeqCst) == my && !done.load(SeqCst) {
        shim::thread::yield_now();
    }
}

pub fn build_relay_h1(name: &'static str, stores: u32) -> Scenario<Arc<Relay>> {
    use shim::atomic::Ordering::SeqCst;
    let setup = move || Arc::new(Relay { hl: Box::new(shim::HalfLockProbe::new(Canary(100))), started: shim::atomic::AtomicUsize::new(0), done: shim::atomic::AtomicBool::new(false) });
    let reader = |name: &'static str| ThreadSpec {
        name,
        body: Box::new(move |s: &Arc<Relay>| {
            while !s.done.load(SeqCst) {
                let g = s.hl.read();
                sched::log("touch", g.0, 0);
                relay_section(&s.started, &s.done);
                drop(g);
            }
        }),
        nest_signals: vec![],
        max_nest: 0,
    };
    let writer = ThreadSpec {
        name: "W",
        body: Box::new(move |s: &Arc<Relay>| {
            for q in 0..stores {
                sched::log("store_call", 10 + q as u64, 0);
                let mut g = s.hl.write();
                g.store(Canary(10 + q as u64));
                drop(g);
                sched::log("store_ret", 10 + q as u64, 0);
            }
            s.done.store(true, SeqCst);
        }),
        nest_signals: vec![],
        max_nest: 0,
    };
    Scenario {
        name: name.to_string(),
        opts: Opts { stale_reads: false, stale_depth: 2, max_spurious: 0, horizon: 3_000, log_ops: false, log_handler_ops: false, reduce: false, no_discipline: false, nest_value_t1: 0, post_points: false, no_race_check: false, start_points: false, endurance: 0 },
        signals: vec![S1],
        setup: Box::new(setup),
        threads: vec![reader("R1"), reader("R2"), writer],
        finish: Box::new(|s, e| {
            let s = Arc::try_unwrap(s).map_err(|_| "engine: state shared".to_string())?;
            drop(s);
            if !e.panics.is_empty() {
                return Err(format!("C18: panicked: {:?}", e.panics));
            }
            Ok(e.log.iter().filter(|x| x.tag == "touch").count() as u64)
        }),
        monitor: Some(Box::new(|| Box::new(SnapMon::default()) as Box<dyn Monitor>)),
    }
}

pub struct RelayReg {
    started: Arc<shim::atomic::AtomicUsize>,
    done: Arc<shim::atomic::AtomicBool>,
}

pub fn build_relay_reg(name: &'static str) -> Scenario<Arc<RelayReg>> {
    use shim::atomic::Ordering::SeqCst;
    let setup = move || {
        fresh_registry(&[(S1, Disp::Ignore), (S2, Disp::Ignore)]);
        let started = Arc::new(shim::atomic::AtomicUsize::new(0));
        let done = Arc::new(shim::atomic::AtomicBool::new(false));
        for sg in [S1, S2] {
            let (st, dn) = (started.clone(), done.clone());
            unsafe { reg::register(sg, move || relay_section(&st, &dn)) }.unwrap();
        }
        Arc::new(RelayReg { started, done })
    };
    let deliverer = |name: &'static str, sg: i32| ThreadSpec {
        name,
        body: Box::new(move |s: &Arc<RelayReg>| {
            while !s.done.load(SeqCst) {
                sched::raise(sg);
            }
        }),
        nest_signals: vec![],
        max_nest: 0,
    };
    let mutator = ThreadSpec {
        name: "M",
        body: Box::new(move |s: &Arc<RelayReg>| {
            let id = unsafe { reg::register(S1, || ()) }.unwrap();
            reg::unregister(id);
            s.done.store(true, SeqCst);
        }),
        nest_signals: vec![],
        max_nest: 0,
    };
    Scenario {
        name: name.to_string(),
        opts: Opts { stale_reads: false, stale_depth: 2, max_spurious: 0, horizon: 6_000, log_ops: false, log_handler_ops: false, reduce: false, no_discipline: true, nest_value_t1: 0, post_points: false, no_race_check: false, start_points: false, endurance: 0 },
        signals: vec![S1, S2],
        setup: Box::new(setup),
        threads: vec![deliverer("D1", S1), deliverer("D2", S2), mutator],
        finish: Box::new(|_s, e| {
            if !e.panics.is_empty() {
                return Err(format!("C18: panicked: {:?}", e.panics));
            }
            Ok(e.log.iter().filter(|x| x.tag == "deliver_end").count() as u64)
        }),
        monitor: None,
    }
}

// ---------------------------------------------------------------------------------------------
// C01, third removal route: dropping the object that owns the actions (Signals + its handles).

pub struct Owner {
    inst: Mutex<Option<signal_hook::iterator::Signals>>,
    handle: Mutex<Option<signal_hook::iterator::Handle>>,
}

pub fn build_owner_drop(name: &'static str) -> Scenario<Arc<Owner>> {
    let after_rejected_add = name.contains("rejected_add");
    let setup = move || {
        fresh_registry(&[(S1, Disp::Ignore), (S2, Disp::Ignore)]);
        let s = signal_hook::iterator::Signals::new(&[S1, S2]).expect("new");
        let h = s.handle();
        if after_rejected_add {
            // an addition refused by panic, survived by the application, earlier in the instance's life
            let r = std::panic::catch_unwind(std::panic::AssertUnwindSafe(|| h.add_signal(libc::SIGKILL)));
            assert!(r.is_err());
        }
        Arc::new(Owner { inst: Mutex::new(Some(s)), handle: Mutex::new(Some(h)) })
    };
    let m = ThreadSpec {
        name: "M",
        body: Box::new(|s: &Arc<Owner>| {
            let i = s.inst.lock().unwrap().take();
            let h = s.handle.lock().unwrap().take();
            sched::log("drop_call", 0, 0);
            drop(i);
            drop(h); // the last owner: unregisters both actions
            sched::log("drop_ret", 0, 0);
        }),
        nest_signals: vec![S1],
        max_nest: 1,
    };
    let d = |name: &'static str, sigs: Vec<i32>| ThreadSpec {
        name,
        body: Box::new(move |_s: &Arc<Owner>| {
            for &sg in &sigs {
                sched::raise(sg);
            }
        }),
        nest_signals: vec![],
        max_nest: 0,
    };
    Scenario {
        name: name.to_string(),
        opts: Opts { stale_reads: true, stale_depth: 3, max_spurious: 0, horizon: 20_000, log_ops: false, log_handler_ops: false, reduce: false, no_discipline: false, nest_value_t1: 0, post_points: false, no_race_check: false, start_points: false, endurance: 0 },
        signals: vec![S1, S2],
        setup: Box::new(setup),
        threads: vec![m, d("D1", vec![S1, S2]), d("D2", vec![S2])],
        finish: Box::new(|_s, e| {
            if !e.panics.is_empty() {
                return Err(format!("C18: panicked: {:?}", e.panics));
            }
            // the actions' only visible effect is the wake attempt on the instance's pipe
            let mut fd: Option<u64> = None;
            let mut open_wakes: i32 = 0;
            let mut dropped = false;
            let mut h: u64 = 0xcbf29ce484222325;
            let mut depth_wakes = 0u64;
            for ev in &e.log {
                match ev.tag {
                    "wake" => {
                        if fd.is_none() {
                            fd = Some(ev.a);
                        }
                        if dropped {
                            return Err("C01: an action of the dropped instance still ran (wake attempt on its pipe) after the drop of its last owner had returned".into());
                        }
                        depth_wakes += 1;
                        h ^= depth_wakes.wrapping_mul(0x9e3779b97f4a7c15) ^ ev.tid as u64;
                        open_wakes += 0;
                    }
                    "drop_ret" => dropped = true,
                    _ => {}
                }
            }
            if let Some(f) = fd {
                if unsafe { libc::fcntl(f as i32, libc::F_GETFD) } != -1 {
                    return Err("C01: the pipe captured by the removed actions is still open after the last owner was dropped (captured state not released)".into());
                }
            }
            // a probe delivery afterwards must not reach any action of the instance
            let before = e.log.iter().filter(|x| x.tag == "wake").count();
            sched::setup_raise(S1);
            sched::setup_raise(S2);
            let after = sched::exec().log.iter().filter(|x| x.tag == "wake").count();
            if after != before {
                return Err("C01: an action of the dropped instance ran in a later delivery".into());
            }
            Ok(h)
        }),
        monitor: Some(Box::new(|| Box::new(SnapMon::default()) as Box<dyn Monitor>)),
    }
}

// ---------------------------------------------------------------------------------------------
// C18: iterator add / drop (its own table lock, then the registry's locks) against registry calls on
// another thread, with a rejected (panicking) add_signal in between.

pub fn build_iter_live(name: &'static str) -> Scenario<Arc<Owner>> {
    let setup = || {
        fresh_registry(&[(S1, Disp::Ignore), (S2, Disp::Ignore)]);
        let s = signal_hook::iterator::Signals::new(&[S1]).expect("new");
        let h = s.handle();
        Arc::new(Owner { inst: Mutex::new(Some(s)), handle: Mutex::new(Some(h)) })
    };
    let a = ThreadSpec {
        name: "A",
        body: Box::new(|s: &Arc<Owner>| {
            let h = s.handle.lock().unwrap().take().unwrap();
            // a rejected addition (documented panic) must not wedge what follows
            let r = std::panic::catch_unwind(std::panic::AssertUnwindSafe(|| h.add_signal(libc::SIGKILL)));
            sched::log("rejected_add", r.is_err() as u64, 0);
            // numbers outside the table are refused too (by panic): those calls return as well
            for bad in [1000, -1] {
                let r = std::panic::catch_unwind(std::panic::AssertUnwindSafe(|| h.add_signal(bad)));
                sched::log("rejected_add_out_of_range", r.is_err() as u64, bad as u64);
            }
            h.add_signal(S2).expect("add_signal");
            sched::log("add_ret", S2 as u64, 0);
            let i = s.inst.lock().unwrap().take();
            drop(i);
            drop(h);
            sched::log("drop_ret", 0, 0);
        }),
        nest_signals: vec![S1],
        max_nest: 1,
    };
    let b = ThreadSpec {
        name: "B",
        body: Box::new(|_s: &Arc<Owner>| {
            let id = unsafe { reg::register(S2, || ()) }.expect("register");
            reg::unregister(id);
            #[allow(deprecated)]
            reg::unregister_signal(S1);
        }),
        nest_signals: vec![],
        max_nest: 0,
    };
    let d = ThreadSpec {
        name: "D",
        body: Box::new(|_s: &Arc<Owner>| {
            sched::raise(S1);
            sched::raise(S2);
        }),
        nest_signals: vec![],
        max_nest: 0,
    };
    Scenario {
        name: name.to_string(),
        opts: Opts { stale_reads: false, stale_depth: 2, max_spurious: 0, horizon: 20_000, log_ops: false, log_handler_ops: false, reduce: true, no_discipline: false, nest_value_t1: 0, post_points: false, no_race_check: false, start_points: false, endurance: 0 },
        signals: vec![S1, S2],
        setup: Box::new(setup),
        threads: vec![a, b, d],
        finish: Box::new(|_s, e| {
            if !e.panics.is_empty() {
                return Err(format!("C18: a mutator panicked (a rejected addition wedged a later call?): {:?}", e.panics));
            }
            if !e.log.iter().any(|x| x.tag == "rejected_add" && x.a == 1) {
                return Err("C14: add_signal(SIGKILL) did not panic".into());
            }
            Ok(e.log.iter().filter(|x| x.tag == "wake").count() as u64)
        }),
        monitor: None,
    }
}

fn rp(name: &'static str, prop: &'static str) -> RP {
    RP {
        name,
        prop,
        disps: vec![(S1, Disp::Ignore), (S2, Disp::Ignore)],
        pre: vec![],
        mutators: vec![],
        deliverers: vec![],
        nest: vec![],
        max_nest: 1,
        pause_in_action: false,
        stale: true,
        max_delivery_steps: 8,
        foreign_installer: None,
        poison_first: false,
    }
}

pub fn scenarios(prop: &str, tier: Tier) -> Vec<Item> {
    let q = tier == Tier::Quick;
    let b = |quick: u32, thorough: u32| Some(if q { quick } else { thorough });
    let mut v = Vec::new();
    use MOp::*;
    match prop {
        "C01" => {
            v.push(item(build_h1(H1P { name: "h1_1w1_1r1_all", writers: vec![1], readers: vec![1], nest_writer: false, stale: true }), None, "half-lock: 1 store vs 1 read, every interleaving"));
            v.push(item(build_h1(H1P { name: "h1_1w1_2r1", writers: vec![1], readers: vec![1, 1], nest_writer: false, stale: true }), if q { Some(3) } else { Some(5) }, "half-lock: 1 store vs 2 readers"));
            v.push(item(build_h1(H1P { name: "h1_1w2_2r2_nested", writers: vec![2], readers: vec![2, 2], nest_writer: true, stale: true }), b(2, 3), "2 stores vs 2x2 reads + a read nested in the writer at every boundary"));
            v.push(item(build_h1(H1P { name: "h1_2w_2r", writers: vec![1, 1], readers: vec![1, 2], nest_writer: true, stale: true }), b(2, 3), "2 writers vs 2 readers + nested read"));
            // the same action removed from two threads at once: whichever call returns first, the action is quiescent
            for (name, second) in [("reg_two_removers_same_action", Unreg(1)), ("reg_remover_vs_unregister_signal", UnregSig(S1))] {
                let mut p = rp(name, "C01");
                p.pre = vec![Reg(S1, 1)];
                p.mutators = vec![vec![Unreg(1)], vec![second]];
                p.deliverers = vec![vec![S1], vec![S1]];
                p.pause_in_action = true;
                v.push(item(build_reg(p), b(2, 3), "two removal calls for one action on two threads vs deliveries paused inside the action: when either call returns nothing is in progress and the captures are released"));
            }
            let mut p = rp("reg_two_mutators_after_poisoned_writer_lock", "C01");
            p.pre = vec![Reg(S1, 1), Reg(S1, 2)];
            p.mutators = vec![vec![Unreg(1), Reg(S1, 3)], vec![Unreg(2), Reg(S1, 4)]];
            p.deliverers = vec![vec![S1]];
            p.poison_first = true;
            p.pause_in_action = true;
            v.push(item(build_reg(p), b(2, 3), "two mutators and a delivery after an earlier removal unwound (a captured value panicked in its destructor) and poisoned the writer mutex: writers are still serialised"));
            // removal by dropping the owner, after two threads added the same signal to it at the same time
            v.push(item(crate::propsb::c12::sched_part::build_n("owner_drop_after_two_threads_added_one_signal", 2, false, "C01"), b(2, 3), "two threads add the same signal to one iterator instance through handle clones while it is delivered; when the owner and all handles are gone no action of the instance runs any more"));
            v.push(item(build_owner_drop("owner_drop_after_rejected_add_vs_deliveries"), b(2, 3), "the same after an addition that was refused by panic (and survived) earlier in the instance's life"));
            // a signal of the forbidden list, hooked through the unchecked entry point and sent by software
            let mut p = rp("reg_unregister_vs_deliveries_sigfpe_unchecked", "C01");
            p.disps = vec![(libc::SIGFPE, Disp::Ignore), (S2, Disp::Ignore)];
            p.pre = vec![RegUnchecked(libc::SIGFPE, 1)];
            p.mutators = vec![vec![RegUnchecked(libc::SIGFPE, 2), Unreg(1)]];
            p.deliverers = vec![vec![libc::SIGFPE], vec![libc::SIGFPE]];
            p.nest = vec![libc::SIGFPE];
            p.pause_in_action = true;
            v.push(item(build_reg(p), b(2, 3), "the same on SIGFPE registered through register_unchecked and raised by software: removal is quiescent for every signal the registry can hold"));
            v.push(item(build_h1_endurance("h1_reader_off_cpu_endurance", 1_600_000), Some(0), "a reader stays inside its section while the writer goes through 1.6 million barrier rounds (a thread off the processor for a long time): the store must neither return nor release the old value before the reader leaves, and must do both afterwards; one forced schedule"));
            v.push(item(build_reg_endurance("reg_delivery_off_cpu_endurance", "C01", 1_600_000), Some(0), "a delivery stalled inside an earlier action of the signal while a later action is removed, for 1.6 million barrier rounds: after the removal returned the action does not run and its captures are released; one forced schedule"));
            // registry
            let mut p = rp("reg_unregister_vs_deliveries", "C01");
            p.pre = vec![Reg(S1, 1)];
            p.mutators = vec![vec![Reg(S1, 2), Unreg(1)]];
            p.deliverers = vec![vec![S1], vec![S1]];
            p.nest = vec![S1];
            p.pause_in_action = true;
            v.push(item(build_reg(p), b(2, 3), "register b, unregister a vs 2 delivery threads + nested arrival in the mutator"));
            let mut p = rp("reg_unregister_signal_vs_deliveries", "C01");
            p.pre = vec![Reg(S1, 1), Reg(S1, 2)];
            p.mutators = vec![vec![UnregSig(S1)]];
            p.deliverers = vec![vec![S1, S1]];
            p.nest = vec![S1];
            p.pause_in_action = true;
            v.push(item(build_reg(p), b(2, 3), "unregister_signal vs deliveries (two in a row) + nested arrival"));
            v.push(item(build_owner_drop("owner_drop_vs_deliveries"), b(2, 3), "dropping a Signals instance and its last handle (removal by dropping the owner) vs deliveries of both signals from two threads + nested arrival in the dropping thread"));
            let mut p = rp("reg_two_mutators", "C01");
            p.pre = vec![Reg(S1, 1), Reg(S2, 5)];
            p.mutators = vec![vec![Unreg(1)], vec![Unreg(5), Reg(S2, 6)]];
            p.deliverers = vec![vec![S1, S2]];
            p.nest = vec![S1, S2];
            v.push(item(build_reg(p), b(2, 3), "two mutators on two signals vs deliveries of both"));
        }
        "C02" => {
            let mut p = rp("snapshot_chain", "C02");
            p.pre = vec![Reg(S1, 1), Reg(S1, 4)];
            p.mutators = vec![vec![Reg(S1, 2), Unreg(1), Reg(S1, 3)]];
            p.deliverers = vec![vec![S1, S1]];
            p.nest = vec![S1];
            p.max_nest = 2;
            v.push(item(build_reg(p), b(3, 4), "register B, unregister A, register C vs 2 deliveries + nested arrivals"));
            let mut p = rp("snapshot_two_signals_small", "C02");
            p.pre = vec![Reg(S1, 1), Reg(S2, 5)];
            p.mutators = vec![vec![Unreg(1), Reg(S1, 2)], vec![Reg(S2, 6)]];
            p.deliverers = vec![vec![S1, S2]];
            p.nest = vec![S1, S2];
            v.push(item(build_reg(p), b(2, 3), "two mutators on two signals, one delivery thread raising both, nested arrivals of both"));
            if !q {
                let mut p = rp("snapshot_two_signals", "C02");
                p.pre = vec![Reg(S1, 1), Reg(S2, 5)];
                p.mutators = vec![vec![Reg(S1, 2), Unreg(1)], vec![Reg(S2, 6), Unreg(5)]];
                p.deliverers = vec![vec![S1, S2], vec![S2, S1]];
                p.nest = vec![S1, S2];
                v.push(item(build_reg(p), Some(2), "two mutators on two signals, deliveries of both from two threads"));
            }
            v.push(item(build_reg_endurance("snapshot_delivery_off_cpu_endurance", "C02", 1_600_000), Some(0), "a delivery stalled (off the processor) inside an earlier action while a later action is removed: no action runs whose removal had returned; one forced schedule, 1.6 million barrier rounds"));
            let mut p = rp("snapshot_overlapping_deliveries_vs_unregister", "C02");
            p.pre = vec![Reg(S1, 1), Reg(S1, 2)];
            p.mutators = vec![vec![Unreg(2)]];
            p.deliverers = vec![vec![S1], vec![S1]];
            p.nest = vec![S1];
            p.pause_in_action = true;
            v.push(item(build_reg(p), b(2, 3), "two deliveries of one signal in flight at once (paused inside their actions, one may finish while the other is still running) while a later action is removed"));
            let mut p = rp("snapshot_mixed_entry_points", "C02");
            p.pre = vec![RegInfo(S1, 1), Reg(S1, 2), RegInfo(S1, 3)];
            p.mutators = vec![vec![Reg(S1, 4), RegInfo(S1, 5), Unreg(2)]];
            p.deliverers = vec![vec![S1, S1]];
            p.nest = vec![S1];
            v.push(item(build_reg(p), b(2, 3), "actions registered alternately through register and register_sigaction on one signal: they run in registration order whatever the entry point"));
            let mut p = rp("snapshot_unregister_signal_of_three", "C02");
            p.pre = vec![Reg(S1, 1), Reg(S1, 2), Reg(S1, 3)];
            p.mutators = vec![vec![UnregSig(S1), Reg(S1, 4)]];
            p.deliverers = vec![vec![S1, S1], vec![S1]];
            p.nest = vec![S1];
            v.push(item(build_reg(p), b(2, 3), "unregister_signal of three actions vs deliveries: all three or none"));
            let mut p = rp("snapshot_stale_unregister", "C02");
            p.pre = vec![Reg(S1, 1)];
            p.mutators = vec![vec![Reg(S1, 2), Unreg(2), Reg(S1, 3), Unreg(2), Reg(S1, 4), Unreg(2)]];
            p.deliverers = vec![vec![S1, S1]];
            v.push(item(build_reg(p), b(2, 3), "an id is used again after its action was removed (a no-op), with later registrations in between: the later actions keep running"));
            let mut p = rp("snapshot_after_oneshot_handler_urg", "C02");
            p.disps = vec![(libc::SIGURG, Disp::PlainOdd), (S2, Disp::Ignore)];
            p.pre = vec![Reg(libc::SIGURG, 1)];
            p.mutators = vec![vec![Reg(libc::SIGURG, 2)]];
            p.deliverers = vec![vec![libc::SIGURG, libc::SIGURG, libc::SIGURG]];
            v.push(item(build_reg(p), b(2, 3), "the signal was taken over from a handler installed with SA_RESETHAND|SA_NODEFER|SA_ONSTACK: every one of three deliveries must still run the registered actions"));
            let mut p = rp("snapshot_first_registration", "C02");
            p.mutators = vec![vec![Reg(S1, 1), Reg(S1, 2), UnregSig(S1), Reg(S1, 3)]];
            p.deliverers = vec![vec![S1, S1]];
            p.nest = vec![S1];
            v.push(item(build_reg(p), b(2, 3), "first registration of the signal, unregister_signal, re-register"));
        }
        "C04" => {
            for (name, d, sig) in [
                ("chain_plain", Disp::Plain, S1),
                ("chain_siginfo", Disp::Info, S1),
                ("chain_ignore", Disp::Ignore, S1),
                ("chain_default_urg", Disp::Default, libc::SIGURG),
                ("chain_ignore_with_siginfo_flag", Disp::IgnoreInfoFlag, S1),
                ("chain_default_with_siginfo_flag_urg", Disp::DefaultInfoFlag, libc::SIGURG),
            ] {
                let mut p = rp(name, "C04");
                p.disps = vec![(sig, d), (S2, Disp::Plain)];
                p.mutators = vec![vec![Reg(sig, 1), Reg(sig, 2)], vec![Reg(S2, 5)]];
                p.deliverers = vec![vec![sig, sig]];
                p.nest = vec![sig];
                v.push(item(build_reg(p), b(2, 3), "first registration (with a concurrent first registration of another signal) vs deliveries at every instant"));
            }
            // histories after the takeover: all actions removed, the signal registered again, another
            // signal registered for the first time - the chained handler must keep being called
            for (name, d) in [("chain_after_unregister_all_plain", Disp::Plain), ("chain_after_unregister_all_siginfo", Disp::Info)] {
                let mut p = rp(name, "C04");
                p.disps = vec![(S1, d), (S2, Disp::Plain)];
                p.pre = vec![Reg(S1, 1), Unreg(1)];
                p.mutators = vec![vec![Reg(S1, 2), UnregSig(S1), Reg(S1, 3)], vec![Reg(S2, 5)]];
                p.deliverers = vec![vec![S1, S1]];
                p.nest = vec![S1];
                v.push(item(build_reg(p), b(2, 3), "after register + unregister of everything: re-registration, unregister_signal, another signal's first registration vs deliveries"));
            }
            for (name, d) in [("chain_oneshot_plain_after_takeover_urg", Disp::PlainOdd), ("chain_oneshot_siginfo_after_takeover_urg", Disp::InfoOdd)] {
                let mut p = rp(name, "C04");
                p.disps = vec![(libc::SIGURG, d), (S2, Disp::Plain)];
                p.pre = vec![Reg(libc::SIGURG, 1)];
                p.mutators = vec![vec![Reg(libc::SIGURG, 2), Unreg(1)], vec![Reg(S2, 5)]];
                p.deliverers = vec![vec![libc::SIGURG, libc::SIGURG, libc::SIGURG]];
                p.nest = vec![libc::SIGURG];
                v.push(item(build_reg(p), b(2, 3), "taken over from a handler installed with SA_RESETHAND|SA_NODEFER(|SA_ONSTACK): it is chained in every one of three deliveries and the library's handler stays installed without those flags"));
            }
            let mut p = rp("chain_sigfpe_unchecked", "C04");
            p.disps = vec![(libc::SIGFPE, Disp::Info), (S2, Disp::Plain)];
            p.mutators = vec![vec![RegUnchecked(libc::SIGFPE, 1), RegUnchecked(libc::SIGFPE, 2)], vec![Reg(S2, 5)]];
            p.deliverers = vec![vec![libc::SIGFPE, libc::SIGFPE]];
            p.nest = vec![libc::SIGFPE];
            v.push(item(build_reg(p), b(2, 3), "a signal of the forbidden list with a pre-existing three-argument handler, hooked through register_unchecked and raised by software: chained once, before any action"));
            let mut p = rp("chain_overlapping_deliveries", "C04");
            p.disps = vec![(S1, Disp::PlainPausing), (S2, Disp::Plain)];
            p.pre = vec![Reg(S1, 1)];
            p.mutators = vec![vec![Reg(S1, 2)]];
            p.deliverers = vec![vec![S1], vec![S1]];
            p.nest = vec![S1];
            v.push(item(build_reg(p), b(2, 3), "deliveries of one signal handled on two threads at once, switched out inside the pre-existing handler: each of them chains it exactly once"));
            let mut p = rp("chain_first_registrations_vs_unrelated_unregister", "C04");
            p.disps = vec![(S1, Disp::Plain), (S2, Disp::Plain), (libc::SIGURG, Disp::Plain)];
            p.pre = vec![Reg(S1, 1), Reg(S1, 2)];
            p.mutators = vec![vec![Unreg(1)], vec![Reg(S2, 5), Reg(libc::SIGURG, 7)]];
            p.deliverers = vec![vec![S2, S2]];
            v.push(item(build_reg(p), b(2, 3), "an unrelated unregister on one thread while another makes two first registrations (the second overwrites the fallback): the first signal's pre-existing handler keeps being chained"));
            let mut p = rp("chain_foreign_sigaction_during_first_registration", "C04");
            p.disps = vec![(S1, Disp::Plain), (S2, Disp::Plain)];
            p.mutators = vec![vec![Reg(S1, 1)]];
            p.deliverers = vec![vec![S1, S1]];
            p.foreign_installer = Some(S1);
            v.push(item(build_reg(p), b(2, 3), "another thread replaces the pre-existing handler with a plain sigaction call at any instant before the library's handler is installed: afterwards the handler that was installed at the take-over is the one chained"));
            for (name, d) in [("chain_after_temporary_override_plain", Disp::Plain), ("chain_after_temporary_override_siginfo", Disp::Info)] {
                let mut p = rp(name, "C04");
                p.disps = vec![(S1, d), (S2, Disp::Plain)];
                p.pre = vec![Reg(S1, 1), OverrideIgn(S1), Reg(S1, 2), Unreg(1), RestoreSaved(S1)];
                p.mutators = vec![vec![Reg(S1, 3), Unreg(2)], vec![Reg(S2, 5)]];
                p.deliverers = vec![vec![S1, S1]];
                p.nest = vec![S1];
                v.push(item(build_reg(p), b(2, 3), "after the take-over other code sets the signal to be ignored for a while and puts back what it found (as system(3) does); a registration and a removal happen meanwhile: afterwards every delivery still chains the pre-existing handler once, first"));
            }
            let mut p = rp("chain_two_signals_both_foreign", "C04");
            p.disps = vec![(S1, Disp::Info), (S2, Disp::Plain)];
            p.mutators = vec![vec![Reg(S1, 1)], vec![Reg(S2, 5)]];
            p.deliverers = vec![vec![S1, S2], vec![S2, S1]];
            p.nest = vec![S1, S2];
            v.push(item(build_reg(p), b(2, 3), "two first registrations contending for the fallback; deliveries of both signals"));
        }
        "C05" => {
            let mut p = rp("concurrent_unregister_vs_register_other_signal", "C05");
            p.pre = vec![Reg(S1, 1), Reg(S1, 2), Reg(S2, 5)];
            p.mutators = vec![vec![Unreg(1), Reg(S1, 3)], vec![Reg(S2, 6), Unreg(5), Reg(S2, 7)]];
            p.deliverers = vec![vec![S1, S2]];
            v.push(item(build_reg(p), b(2, 3), "two mutators on two signals (unregister / register) + a delivery thread; afterwards probe deliveries must run exactly the registered actions, ids all distinct"));
            let mut p = rp("unregister_signal_of_three_vs_deliveries", "C05");
            p.pre = vec![Reg(S1, 1), Reg(S1, 2), Reg(S1, 3), Reg(S2, 5)];
            p.mutators = vec![vec![UnregSig(S1), Reg(S1, 4)]];
            p.deliverers = vec![vec![S1, S1], vec![S1]];
            p.nest = vec![S1];
            v.push(item(build_reg(p), b(2, 3), "unregister_signal of a signal with three actions vs deliveries on two threads and nested in the mutator: every delivery runs all three or none"));
            let mut p = rp("concurrent_same_signal", "C05");
            p.pre = vec![Reg(S1, 1), Reg(S1, 2)];
            p.mutators = vec![vec![Unreg(1), Reg(S1, 3)], vec![Reg(S1, 6), Unreg(2)]];
            p.deliverers = vec![vec![S1]];
            v.push(item(build_reg(p), b(2, 3), "two mutators on one signal"));
        }
        "C18" => {
            v.push(item(build_h1(H1P { name: "live_h1_1w1_2r1_all", writers: vec![1], readers: vec![1, 1], nest_writer: false, stale: false }), if q { Some(3) } else { Some(5) }, "half-lock: writer must terminate against 2 readers"));
            v.push(item(build_h1(H1P { name: "live_h1_2w2_2r2", writers: vec![2, 1], readers: vec![2, 1], nest_writer: true, stale: false }), b(1, 3), "2 writers, 2 readers re-entering between barrier checks, nested read"));
            let mut p = rp("live_mutators_and_panic", "C18");
            p.pre = vec![Reg(S1, 1)];
            p.mutators = vec![vec![Reg(S1, 2), Unreg(1)], vec![Reg(S2, 5), Unreg(5)], vec![RegForbidden, Reg(S1, 7)]];
            p.deliverers = vec![if q { vec![S1] } else { vec![S1, S2] }];
            p.nest = vec![S1];
            p.pause_in_action = true;
            v.push(item(build_reg(p), b(2, 3), "3 mutators (one panics on a forbidden signal) + deliveries + nested arrivals incl. inside the barrier"));
            v.push(item(build_relay_h1("relay_h1_sections_always_in_flight", 1), b(1, 2), "two readers relay their sections so that one is always open (each finite) until the writer is done: the writer must still finish"));
            v.push(item(build_relay_reg("relay_registry_deliveries_always_in_flight"), b(0, 1), "deliveries of two signals on two threads relay (each returns only after a later one started) until the mutator has done a register/unregister round"));
            let mut p = rp("live_unregister_signal_vs_first_registration", "C18");
            p.pre = vec![Reg(S1, 1)];
            p.mutators = vec![vec![UnregSig(S1), Reg(S1, 2)], vec![Reg(S2, 5), UnregSig(S2)]];
            p.deliverers = vec![vec![S1]];
            v.push(item(build_reg(p), b(2, 3), "unregister_signal on one thread vs a first registration of another signal on another (both half-locks' writer mutexes in play)"));
            v.push(item(build_iter_live("live_iterator_add_drop_vs_register"), b(2, 3), "iterator add_signal (after a rejected, panicking one) and drop on one thread vs register/unregister/unregister_signal on another + deliveries + nested arrival"));
            let mut p = rp("live_refused_registration", "C18");
            p.mutators = vec![vec![RegRefused, Reg(S1, 2), RegRefused], vec![Reg(S2, 5), Unreg(5)]];
            p.deliverers = vec![vec![S1]];
            v.push(item(build_reg(p), b(2, 3), "an unchecked registration the OS refuses (error path of a first registration), before and after a successful one, vs another mutator and a delivery"));
            v.push(item(crate::propsb::c12::sched_part::build_n("live_three_threads_add_one_signal", 3, false, "C18"), b(2, 3), "three threads add the same signal to one iterator instance while it is delivered: every call returns"));
            let mut p = rp("live_refused_registration_reentrant_drop", "C18");
            p.pre = vec![Reg(S1, 1)];
            p.mutators = vec![vec![RegRefusedGuard(1), Reg(S1, 2)], vec![Reg(S2, 5), Unreg(5)]];
            p.deliverers = vec![vec![S1]];
            v.push(item(build_reg(p), b(2, 3), "a refused registration whose action, when destroyed, unregisters another action (its destructor re-enters the registry): the call returns and later calls are not wedged"));
            let mut p = rp("live_same_signal", "C18");
            p.mutators = vec![vec![Reg(S1, 1), UnregSig(S1)], vec![Reg(S1, 5), Unreg(5)]];
            p.deliverers = vec![vec![S1], vec![S1]];
            p.nest = vec![S1];
            p.pause_in_action = true;
            v.push(item(build_reg(p), b(2, 3), "2 mutators on one signal (first registration contended) + 2 delivery threads"));
        }
        _ => {}
    }
    v
}
