//! C06 / C07 / C08: the 5-slot channel, explored directly on `Channel<Tracked>`.
#![allow(clippy::all)]
use super::{item, Item, Tier};
use crate::sched::{self, hb, Ev, Exec, Opts, Scenario, ThreadSpec};
use signal_hook::low_level::channel::Channel;
use std::collections::HashMap;
use std::sync::atomic::{AtomicPtr, AtomicU32, AtomicU8, Ordering};
use std::sync::Arc;

const NONE_ID: u64 = 0xffff;

static DROPS: [AtomicU8; 256] = {
    const Z: AtomicU8 = AtomicU8::new(0);
    [Z; 256]
};
static CREATED: [AtomicU8; 256] = {
    const Z: AtomicU8 = AtomicU8::new(0);
    [Z; 256]
};
static CH_PTR: AtomicPtr<Channel<Tracked>> = AtomicPtr::new(std::ptr::null_mut());
static NEST_SEQ: AtomicU32 = AtomicU32::new(0);

pub struct Tracked(pub u32);

impl Tracked {
    fn new(id: u32) -> Tracked {
        CREATED[id as usize].store(1, Ordering::SeqCst);
        Tracked(id)
    }
}

impl Drop for Tracked {
    fn drop(&mut self) {
        if self.0 == 0x7f {
            return; // flood values: not tracked individually
        }
        let n = DROPS[self.0 as usize].fetch_add(1, Ordering::SeqCst).wrapping_add(1);
        sched::log("value_drop", self.0 as u64, n as u64);
    }
}

extern "C" fn nested_send(_sig: libc::c_int) {
    let p = CH_PTR.load(Ordering::SeqCst);
    if p.is_null() {
        return;
    }
    let ch = unsafe { &*p };
    let id = 0x80 + NEST_SEQ.fetch_add(1, Ordering::SeqCst);
    sched::log("send_call", id as u64, 1);
    ch.send(Tracked::new(id));
    sched::log("send_ret", id as u64, 1);
}

pub struct CS {
    ch: Box<Channel<Tracked>>,
}

#[derive(Clone)]
pub struct P {
    pub name: &'static str,
    /// (rotations k, values left in j)
    pub pre: (u32, u32),
    pub producers: Vec<u32>,
    pub consumers: Vec<u32>,
    /// model-thread indexes (1-based, producers first then consumers) that may take a nested send
    pub nest_on: Vec<usize>,
    pub max_nest: u32,
    pub stale: bool,
    pub spurious: u32,
    pub prop: &'static str,
    /// threads that first receive `.0` values and then send `.1`
    pub refillers: Vec<(u32, u32)>,
    /// one more thread that sends this many values into the (full) channel, all of which are discarded
    pub flood: u32,
}

fn do_send(ch: &Channel<Tracked>, id: u32) {
    sched::log("send_call", id as u64, 0);
    ch.send(Tracked::new(id));
    sched::log("send_ret", id as u64, 0);
}

fn do_recv(ch: &Channel<Tracked>) -> bool {
    sched::log("recv_call", 0, 0);
    let r = ch.recv();
    let got = r.is_some();
    sched::log("recv_ret", r.as_ref().map_or(NONE_ID, |t| t.0 as u64), 0);
    drop(r);
    got
}

pub fn build(p: P) -> Scenario<Arc<CS>> {
    let pp = p.clone();
    let setup = move || {
        for i in 0..256 {
            DROPS[i].store(0, Ordering::SeqCst);
            CREATED[i].store(0, Ordering::SeqCst);
        }
        NEST_SEQ.store(0, Ordering::SeqCst);
        unsafe {
            let mut sa: libc::sigaction = std::mem::zeroed();
            sa.sa_sigaction = nested_send as usize;
            libc::sigaction(libc::SIGUSR1, &sa, std::ptr::null_mut());
        }
        // scenarios named *_default build the channel the way the exfiltrators do (Default), not with new()
        let ch: Box<Channel<Tracked>> = if pp.name.ends_with("_default") { Box::default() } else { Box::new(Channel::new()) };
        let mut n = 0;
        for _ in 0..pp.pre.0 {
            do_send(&ch, 0x40 + n);
            n += 1;
            do_recv(&ch);
        }
        for _ in 0..pp.pre.1 {
            do_send(&ch, 0x40 + n);
            n += 1;
        }
        CH_PTR.store(&*ch as *const _ as *mut _, Ordering::SeqCst);
        Arc::new(CS { ch })
    };
    let mut threads: Vec<ThreadSpec<Arc<CS>>> = Vec::new();
    let names = ["P1", "P2", "P3"];
    for (pi, &k) in p.producers.iter().enumerate() {
        let idx = threads.len() + 1;
        threads.push(ThreadSpec {
            name: names[pi],
            body: Box::new(move |s: &Arc<CS>| {
                for q in 0..k {
                    do_send(&s.ch, ((pi as u32 + 1) << 4) + q);
                }
            }),
            nest_signals: if p.nest_on.contains(&idx) { vec![libc::SIGUSR1] } else { vec![] },
            max_nest: p.max_nest,
        });
    }
    let cnames = ["C1", "C2"];
    for (ci, &k) in p.consumers.iter().enumerate() {
        let idx = threads.len() + 1;
        threads.push(ThreadSpec {
            name: cnames[ci],
            body: Box::new(move |s: &Arc<CS>| {
                for _ in 0..k {
                    do_recv(&s.ch);
                }
            }),
            nest_signals: if p.nest_on.contains(&idx) { vec![libc::SIGUSR1] } else { vec![] },
            max_nest: p.max_nest,
        });
    }
    for (ri, &(nr, ns)) in p.refillers.iter().enumerate() {
        threads.push(ThreadSpec {
            name: "RF",
            body: Box::new(move |s: &Arc<CS>| {
                for _ in 0..nr {
                    do_recv(&s.ch);
                }
                for q in 0..ns {
                    do_send(&s.ch, 0x60 + (ri as u32) * 8 + q);
                }
            }),
            nest_signals: vec![],
            max_nest: 0,
        });
    }
    if p.flood > 0 {
        let n = p.flood;
        threads.push(ThreadSpec {
            name: "FL",
            body: Box::new(move |s: &Arc<CS>| {
                for _ in 0..n {
                    // one tracked id for all of them: only the five values parked before matter
                    s.ch.send(Tracked(0x7f));
                }
                sched::log("flood_done", n as u64, 0);
            }),
            nest_signals: vec![],
            max_nest: 0,
        });
    }
    DROP_PREFIX_C06.store(p.prop == "C06", Ordering::SeqCst);
    let flood = p.flood;
    let pp_prop = p.prop;
    let prop = p.prop;
    let pp_name = p.name;
    let finish = move |s: Arc<CS>, e: &mut Exec| -> Result<u64, String> {
        // single-threaded drain, then drop the channel
        let mut n = 0;
        let mut drain_panic: Option<String> = None;
        // scenarios named *_nodrain drop the channel with whatever is still inside
        let nodrain = pp_name.ends_with("_nodrain");
        if flood > 0 {
            // the five values parked before the flood, in order, and nothing else
            let mut got: Vec<u64> = Vec::new();
            loop {
                let r = std::panic::catch_unwind(std::panic::AssertUnwindSafe(|| s.ch.recv()));
                match r {
                    Ok(Some(t)) => {
                        got.push(t.0 as u64);
                        if got.len() > 8 {
                            break;
                        }
                    }
                    Ok(None) => break,
                    Err(_) => return Err(format!("C08: recv panicked after {} sends into a full channel", flood)),
                }
            }
            let want: Vec<u64> = (0..5).map(|k| 0x40 + k).collect();
            let sent = e.log.iter().find(|ev| ev.tag == "flood_done").map_or("fewer than".to_string(), |_| "all".to_string());
            let content = if got != want {
                Some(format!("C06: after {} {} sends into a full channel (each must be discarded) the channel holds {:x?} instead of the five values parked before ({:x?})", sent, flood, got, want))
            } else {
                None
            };
            let panicked = if e.panics.is_empty() { None } else { Some(format!("C08: channel operation panicked: {:?}", e.panics)) };
            // each check reports its own oracle first
            let (first, second) = if pp_prop == "C08" { (panicked, content) } else { (content, panicked) };
            if let Some(m) = first.or(second) {
                return Err(m);
            }
            return Ok(flood as u64);
        }
        loop {
            if nodrain {
                break;
            }
            let r = std::panic::catch_unwind(std::panic::AssertUnwindSafe(|| do_recv(&s.ch)));
            match r {
                Ok(true) => {
                    n += 1;
                    if n > 6 {
                        return Err("C06: more than 6 values drained from a 5-slot channel".into());
                    }
                }
                Ok(false) => break,
                Err(p) => {
                    drain_panic = Some(p.downcast_ref::<&str>().map(|x| x.to_string()).or_else(|| p.downcast_ref::<String>().cloned()).unwrap_or_default());
                    sched::log("recv_ret", NONE_ID, 9);
                    break;
                }
            }
        }
        CH_PTR.store(std::ptr::null_mut(), Ordering::SeqCst);
        let s = Arc::try_unwrap(s).map_err(|_| "state still shared".to_string())?;
        drop(s);
        let panicked = if !e.panics.is_empty() {
            Some(format!("C08: channel operation panicked: {:?}", e.panics))
        } else {
            drain_panic.map(|m| format!("C08: recv panicked while the channel was drained at the end: {}", m))
        };
        if prop == "C08" {
            if let Some(m) = panicked {
                return Err(m);
            }
        }
        if nodrain {
            // values left inside are not "discarded": only the drop accounting is judged here
            check_drops()?;
            check_drop_sites(&e.log)?;
            if let Some(m) = panicked {
                return Err(m);
            }
            let mut h: u64 = 0xcbf29ce484222325;
            for ev in e.log.iter().filter(|ev| ev.tag == "recv_ret") {
                h ^= ev.a.wrapping_add(0x9e3779b97f4a7c15);
                h = h.wrapping_mul(0x100000001b3);
            }
            return Ok(h);
        }
        // the history oracles (C06 / C07) judge what happened up to the panic as well
        match check_log(&e.log, prop) {
            Err(m) => Err(m),
            Ok(d) => match panicked {
                Some(m) => Err(m),
                None => Ok(d),
            },
        }
    };
    Scenario {
        name: p.name.to_string(),
        opts: Opts { stale_reads: p.stale, stale_depth: 3, max_spurious: p.spurious, horizon: if p.flood > 0 { 40 * p.flood as u64 + 20_000 } else { 20_000 }, log_ops: false, log_handler_ops: false, reduce: false, no_discipline: false, nest_value_t1: 0, post_points: true, no_race_check: p.prop == "C08", start_points: false, endurance: 0 },
        signals: vec![libc::SIGUSR1],
        setup: Box::new(setup),
        threads,
        finish: Box::new(finish),
        monitor: None,
    }
}

/// C07: a value is destroyed by the receiver that got it, by its own send (channel full) or when the
/// channel is dropped - not inside the send of another value and not inside a receive.
fn check_drop_sites(log: &[Ev]) -> Result<(), String> {
    let mut cur: std::collections::HashMap<(u8, u8), Vec<Option<u64>>> = std::collections::HashMap::new();
    for ev in log {
        let k = (ev.tid, ev.depth);
        match ev.tag {
            "send_call" => cur.entry(k).or_default().push(Some(ev.a)),
            "recv_call" => cur.entry(k).or_default().push(None),
            "send_ret" | "recv_ret" => {
                cur.entry(k).or_default().pop();
            }
            "value_drop" => match cur.get(&k).and_then(|v| v.last()) {
                Some(Some(y)) if *y != ev.a => {
                    return Err(format!("C07: value {:#x} was destroyed inside the send of another value ({:#x}) - not by its receiver, its own send or the drop of the channel", ev.a, y));
                }
                Some(None) => {
                    return Err(format!("C07: value {:#x} was destroyed inside a receive instead of being handed to the caller", ev.a));
                }
                _ => {}
            },
            _ => {}
        }
    }
    Ok(())
}

/// C07 (and, for a value destroyed twice, C06's "nothing duplicated"): exactly-once drops
fn check_drops() -> Result<(), String> {
    for id in 0..256usize {
        let c = CREATED[id].load(Ordering::SeqCst);
        let d = DROPS[id].load(Ordering::SeqCst);
        if c == 1 && d != 1 {
            let p = if d > 1 && DROP_PREFIX_C06.load(Ordering::SeqCst) { "C06: a value that was sent once exists twice -" } else { "C07:" };
            return Err(format!("{} value {:#x} dropped {} times after the channel was dropped (leak / double drop)", p, id, d));
        }
    }
    Ok(())
}
static DROP_PREFIX_C06: std::sync::atomic::AtomicBool = std::sync::atomic::AtomicBool::new(false);

struct Val {
    call: usize,
    ret: usize,
    recvs: Vec<usize>, // index into ops
}
struct RecvOp {
    call: usize,
    ret: usize,
    id: u64,
}

fn check_log(log: &[Ev], _prop: &str) -> Result<u64, String> {
    if _prop == "C07" {
        // this check's own oracles first: an execution usually violates several at once
        check_drops()?;
        check_drop_sites(log)?;
    }
    let mut vals: HashMap<u64, Val> = HashMap::new();
    let mut recvs: Vec<RecvOp> = Vec::new();
    let mut open_recv: HashMap<(u8, u8), usize> = HashMap::new();
    // per (thread, depth): open op start index for step accounting
    let mut open_op: HashMap<(u8, u8), (usize, u32, u32)> = HashMap::new();
    let mut inner: HashMap<(u8, u8), (u32, u32)> = HashMap::new(); // steps/cf consumed by nested frames
    for (i, ev) in log.iter().enumerate() {
        let key = (ev.tid, ev.depth);
        match ev.tag {
            "send_call" => {
                if vals.contains_key(&ev.a) {
                    return Err(format!("harness error: id {:#x} sent twice", ev.a));
                }
                vals.insert(ev.a, Val { call: i, ret: usize::MAX, recvs: vec![] });
                open_op.insert(key, (i, ev.own, ev.cf));
                inner.insert(key, (0, 0));
            }
            "recv_call" => {
                open_recv.insert(key, i);
                open_op.insert(key, (i, ev.own, ev.cf));
                inner.insert(key, (0, 0));
            }
            "send_ret" | "recv_ret" => {
                if ev.tag == "send_ret" {
                    vals.get_mut(&ev.a).ok_or("send_ret without call")?.ret = i;
                } else {
                    let c = open_recv.remove(&key).ok_or("recv_ret without call")?;
                    if ev.a != NONE_ID {
                        match vals.get_mut(&ev.a) {
                            None => return Err(format!("C06: received value {:#x} that was never sent (invented)", ev.a)),
                            Some(v) => {
                                if v.call > i {
                                    return Err(format!("C06: value {:#x} received before its send began", ev.a));
                                }
                                v.recvs.push(recvs.len());
                            }
                        }
                    }
                    recvs.push(RecvOp { call: c, ret: i, id: ev.a });
                }
                // C08 step bound (own steps of this operation, without nested frames)
                if let Some((_, own0, cf0)) = open_op.remove(&key) {
                    let (in_s, in_cf) = inner.remove(&key).unwrap_or((0, 0));
                    let steps = ev.own - own0 - in_s;
                    let cf = ev.cf - cf0 - in_cf;
                    if ev.tid != 0 && steps > 12 + 4 * cf {
                        return Err(format!(
                            "C08: {} took {} own steps with {} failed compare-exchanges (the code needs 5 + failures; the check allows 12 + 4 x failures so that harmless refactorings pass)",
                            if ev.tag == "send_ret" { "send" } else { "recv" },
                            steps,
                            cf
                        ));
                    }
                    // account this whole op to the enclosing frame, if it ran nested
                    if ev.depth > 0 {
                        if let Some(x) = inner.get_mut(&(ev.tid, ev.depth - 1)) {
                            x.0 += ev.own - own0;
                            x.1 += ev.cf - cf0;
                        }
                    }
                }
            }
            _ => {}
        }
    }
    // C06b: at most once
    for (id, v) in &vals {
        if v.recvs.len() > 1 {
            return Err(format!("C06: value {:#x} was received {} times (duplicated)", id, v.recvs.len()));
        }
    }
    // C06c: order
    let ids: Vec<u64> = vals.keys().copied().collect();
    for &a in &ids {
        for &b in &ids {
            if a == b {
                continue;
            }
            let (va, vb) = (&vals[&a], &vals[&b]);
            if va.ret == usize::MAX || va.recvs.is_empty() || vb.recvs.is_empty() {
                continue;
            }
            if hb(&log[va.ret], va.ret, &log[vb.call], vb.call) {
                let (ra, rb) = (&recvs[va.recvs[0]], &recvs[vb.recvs[0]]);
                if hb(&log[rb.ret], rb.ret, &log[ra.call], ra.call) {
                    return Err(format!(
                        "C06: reordered: value {:#x} was sent (completely) before {:#x} but received after it",
                        a, b
                    ));
                }
            }
        }
    }
    // C06d: discards
    let mut discards: Vec<u64> = Vec::new();
    for &x in &ids {
        let vx = &vals[&x];
        if !vx.recvs.is_empty() {
            continue;
        }
        discards.push(x);
        if vx.ret == usize::MAX {
            return Err(format!("C08: send of {:#x} never returned", x));
        }
        let mut outstanding = 0;
        for &v in &ids {
            if v == x {
                continue;
            }
            let vv = &vals[&v];
            if vv.recvs.is_empty() {
                continue; // itself discarded: never held a slot
            }
            if vv.call > vx.ret {
                continue;
            }
            let r = &recvs[vv.recvs[0]];
            if hb(&log[r.ret], r.ret, &log[vx.call], vx.call) {
                continue; // completely received before x's send began
            }
            outstanding += 1;
        }
        if outstanding < 5 {
            return Err(format!(
                "C06: value {:#x} was discarded (lost) although only {} other values were outstanding",
                x, outstanding
            ));
        }
    }
    // C06e: empty reports
    for r in &recvs {
        if r.id != NONE_ID {
            continue;
        }
        for &v in &ids {
            let vv = &vals[&v];
            if vv.recvs.is_empty() || vv.ret == usize::MAX {
                continue;
            }
            if !hb(&log[vv.ret], vv.ret, &log[r.call], r.call) {
                continue;
            }
            let got = &recvs[vv.recvs[0]];
            if got.call > r.ret {
                return Err(format!(
                    "C06: a receive reported empty although value {:#x} (sent before it) was still untaken",
                    v
                ));
            }
        }
    }
    check_drops()?;
    check_drop_sites(log)?;
    // digest: receive results per thread in order + discards
    let mut h: u64 = 0xcbf29ce484222325;
    let mut mix = |x: u64| {
        h ^= x.wrapping_add(0x9e3779b97f4a7c15);
        h = h.wrapping_mul(0x100000001b3);
    };
    for r in &recvs {
        mix(((log[r.ret].tid as u64) << 32) | r.id);
    }
    discards.sort();
    for d in discards {
        mix(0xd15c_0000 | d);
    }
    Ok(h)
}

pub fn scenarios(prop: &str, tier: Tier) -> Vec<Item> {
    let prop: &'static str = match prop {
        "C06" => "C06",
        "C07" => "C07",
        _ => "C08",
    };
    let p = |name, pre, producers: &[u32], consumers: &[u32], nest_on: &[usize], max_nest, stale, spurious| P {
        refillers: vec![],
        flood: 0,
        name,
        pre,
        producers: producers.to_vec(),
        consumers: consumers.to_vec(),
        nest_on: nest_on.to_vec(),
        max_nest,
        stale,
        spurious,
        prop,
    };
    let mut v = Vec::new();
    let q = tier == Tier::Quick;
    // two threads, every interleaving
    v.push(item(build(p("p1x1_c1x1_unbounded", (0, 0), &[1], &[1], &[], 0, false, 0)), None, "1 send vs 1 recv, fresh, every interleaving"));
    v.push(item(build(p("p1x2_c1x2_unbounded", (0, 0), &[2], &[2], &[], 0, false, 0)), None, "2 sends vs 2 recvs, fresh, every interleaving"));
    v.push(item(build(p("p1x1_p2x1_unbounded", (2, 1), &[1, 1], &[], &[], 0, false, 0)), None, "2 producers racing on the queues, rotated start (k=2,j=1)"));
    // weak memory + spurious failures
    v.push(item(build(p("p1x2_c1x2_weak", (1, 0), &[2], &[2], &[], 0, true, 1)), Some(if q { 3 } else { 4 }), "stale reads + 1 spurious CAS failure in the bound"));
    v.push(item(build(p("p2_c1_weak", (0, 1), &[1, 1], &[2], &[], 0, true, 1)), Some(if q { 3 } else { 4 }), "2 producers + consumer, stale reads + spurious"));
    // fullness: 4 in, two producers compete for the last slot, consumer frees one
    v.push(item(build(p("full_p2_c1", (3, 4), &[1, 1], &[1], &[], 0, false, 0)), Some(if q { 3 } else { 4 }), "4 values in (rotated k=3), 2 producers + 1 consumer: discard rule"));
    v.push(item(build(p("full5_p1_c1", (5, 5), &[2], &[1], &[], 0, true, 0)), Some(if q { 3 } else { 4 }), "5 values in (k=5): discard only while full, with stale reads"));
    // nested send interrupting send / recv on the same thread
    v.push(item(build(p("nested_in_send", (1, 3), &[2], &[1], &[1], 1, false, 0)), Some(if q { 3 } else { 4 }), "a send in a signal handler interrupts a send (every boundary)"));
    v.push(item(build(p("nested_in_recv", (2, 2), &[1], &[2], &[2], 1, false, 0)), Some(if q { 3 } else { 4 }), "a send in a signal handler interrupts a recv (every boundary)"));
    v.push(item(build(p("nested_twice_full", (4, 4), &[1], &[2], &[1, 2], 2, false, 1)), Some(if q { 3 } else { 4 }), "up to 2 nested sends on either thread near full, 1 spurious failure"));
    // the channel is dropped while values are still inside, after its cells have been recycled
    if prop == "C07" {
    v.push(item(build(p("p1x2_c1x2_rot_nodrain", (2, 1), &[2], &[2], &[], 0, false, 0)), Some(if q { 3 } else { 4 }), "rotated start (2 round trips, 1 value left), 2 sends vs 2 recvs, then the channel is dropped with the rest inside: every value dropped exactly once"));
    v.push(item(build(p("nested_rot_nodrain", (1, 1), &[1], &[2], &[1, 2], 1, false, 0)), Some(if q { 3 } else { 4 }), "as above with a nested send on either thread; dropped non-empty"));
    }
    // two consumers
    v.push(item(build(p("p1x2_c2", (0, 1), &[2], &[1, 1], &[], 0, false, 0)), Some(if q { 3 } else { 4 }), "two consumers (MPMC mode)"));
    for (name, k) in [("full5_c2_p1", 0u32), ("full5_rot2_c2_p1", 2)] {
        v.push(item(build(p(name, (k, 5), &[1], &[1, 1], &[], 0, false, 0)), Some(if q { 3 } else { 4 }), "completely full channel (no free slot queued; fresh and rotated, so that different slot numbers meet), two consumers return their slots at the same time, then a producer reuses one"));
    }
    // the other constructor
    v.push(item(build(p("five_fit_p2_c1_default", (1, 3), &[1, 1], &[1], &[], 0, false, 0)), Some(if q { 3 } else { 4 }), "channel built through Default (as the exfiltrators do), 3 values in, 2 producers + 1 consumer: all five slots exist"));
    // a send that found the channel full is overtaken by a complete drain and refill
    let mut pr = p("full5_p1_vs_drain_and_refill", (0, 5), &[1], &[], &[], 0, false, 0);
    pr.refillers = vec![(5, 5)];
    v.push(item(build(pr), Some(3), "full channel: one send vs a thread that receives all five values and sends five new ones"));
    // a long history: 70000 sends into a full channel (counters that wrap, positions that drift)
    let mut pf = p("full5_flood_70000", (0, 5), &[], &[], &[], 0, false, 0);
    pf.flood = 70_000;
    v.push(item(build(pf), Some(0), "70000 sends into a full channel, every one discarded: afterwards the channel still holds exactly the five values parked before; one schedule"));
    // compare_exchange_weak may fail spuriously any number of times in a row
    v.push(item(build(p("p1x1_spurious17", (1, 0), &[1], &[], &[], 0, false, 17)), None, "one send with up to 17 spurious failures of its weak compare-exchanges, in every combination"));
    if !q {
        v.push(item(build(p("p2x2_c1x3_weak", (2, 0), &[2, 2], &[3], &[], 0, true, 1)), Some(3), "2x2 sends vs 3 recvs"));
        v.push(item(build(p("p1x3_c1x3_rot4", (4, 1), &[3], &[3], &[2], 1, true, 0)), Some(3), "3 sends vs 3 recvs from rotated k=4 start with nested send in consumer"));
        v.push(item(build(p("p3_c1", (1, 2), &[1, 1, 1], &[2], &[], 0, false, 0)), Some(3), "3 producers + consumer"));
    }
    v
}
