//! C09 / C10 / C11: the signal iterators over a real socket pair, with kernel-delivered signals.
#![allow(clippy::all)]
use super::reg::{fresh_registry, Disp, S1, S2};
use super::{item, Item, Tier};
use crate::sched::{self, Ev, Exec, Opts, Scenario, ThreadSpec};
use signal_hook::iterator::backend::{OwningSignalIterator, PollResult, SignalDelivery};
use signal_hook::iterator::exfiltrator::{Exfiltrator, SignalOnly, WithRawSiginfo};
use signal_hook::iterator::{Handle, SignalsInfo};
use std::os::unix::io::AsRawFd;
use std::os::unix::net::UnixStream;
use std::sync::{Arc, Mutex};

pub trait Ex: Exfiltrator + Default + Copy + Send + Sync + 'static {
    const RAW: bool;
    /// (signal number, payload value, ok = the record is a faithful copy of a self-sent queue signal)
    fn decode(o: &Self::Output) -> (i32, u64, bool);
}

impl Ex for SignalOnly {
    const RAW: bool = false;
    fn decode(o: &libc::c_int) -> (i32, u64, bool) {
        (*o, 0, true)
    }
}

impl Ex for WithRawSiginfo {
    const RAW: bool = true;
    fn decode(o: &libc::siginfo_t) -> (i32, u64, bool) {
        let v = unsafe { o.si_value().sival_ptr as usize as u64 };
        let mut ok = (o.si_code == -1 || o.si_code == -6) && unsafe { o.si_pid() } == unsafe { libc::getpid() } && unsafe { o.si_uid() } == unsafe { libc::getuid() };
        // the whole record, not only the fields this kind of delivery names: queued deliveries carry a
        // pattern in bytes 32..48, and everything after that is zero as the kernel wrote it
        let words = unsafe { std::slice::from_raw_parts(o as *const libc::siginfo_t as *const u64, 16) };
        if o.si_code == -1 && v != 0 {
            ok = ok && words[4] == sched::payload_pattern(v) && words[5] == !sched::payload_pattern(v);
        }
        ok = ok && words[6..].iter().all(|w| *w == 0);
        (o.si_signo, v, ok)
    }
}

impl Ex for signal_hook::iterator::exfiltrator::origin::WithOrigin {
    const RAW: bool = true;
    fn decode(o: &signal_hook::low_level::siginfo::Origin) -> (i32, u64, bool) {
        use signal_hook::low_level::siginfo::{Cause, Sent};
        if sched::QUEUE_AS_TIMER.load(std::sync::atomic::Ordering::SeqCst) {
            // timer-style records: the kernel's layout for them names no sender
            return (o.signal, 0, matches!(o.cause, Cause::Unknown) && o.process.is_none());
        }
        let sent_by_us = matches!(o.cause, Cause::Sent(Sent::Queue) | Cause::Sent(Sent::TKill) | Cause::Sent(Sent::User));
        let me = o.process.map_or(false, |p| p.pid == unsafe { libc::getpid() } && p.uid == unsafe { libc::getuid() });
        (o.signal, 0, sent_by_us && me)
    }
}

#[derive(Clone, Copy, PartialEq, Debug)]
pub enum Mode {
    Wait,
    Forever,
    Pending,
    Poll,
}

pub enum Consumer<E: Ex> {
    Sig(SignalsInfo<E>),
    Delivery(SignalDelivery<UnixStream, E>),
    Poll(OwningSignalIterator<UnixStream, E>),
}

pub struct IS<E: Ex> {
    consumer: Mutex<Option<Consumer<E>>>,
    handle: Handle,
    fd: i32,
    /// a second batch (`pending()` returns a detached, sendable iterator) handed to another thread
    batch: Mutex<Option<signal_hook::iterator::backend::Pending<E>>>,
    handoff: [i32; 2],
    /// a pipe nobody writes to: what a task without an armed waker waits for
    never: [i32; 2],
}

#[derive(Clone)]
pub struct IP {
    pub name: &'static str,
    pub prop: &'static str,
    pub mode: Mode,
    pub initial: Vec<i32>,
    /// per delivery thread: the signals it raises
    pub deliverers: Vec<Vec<i32>>,
    pub adders: Vec<i32>,
    /// closers that close at an arbitrary moment (C11); otherwise one closer waits for quiescence
    pub free_closers: u32,
    pub nest_on_k: Vec<i32>,
    pub max_nest: u32,
    pub max_rounds: u32,
    /// info-carrying exfiltrator and at most 5 deliveries per signal: every delivery's own record
    /// must come out (nothing can be discarded for lack of space)
    pub match_values: bool,
    /// Mode::Forever: a new `forever()` iterator for every single item (taken, then dropped)
    pub forever_one: bool,
    /// Mode::Pending: the consumer takes two batches at once and a second thread scans one of them
    pub second_scanner: bool,
    /// the add_signal threads come before the delivery threads in the default order
    pub adders_first: bool,
    /// the first closer makes an addition that is refused by panic (caught) right before it closes
    pub closer_after_rejected_add: bool,
    /// a number the OS refuses: added once during setup (error), and again by a thread of its own
    pub refused_readd: Option<i32>,
    /// Mode::Poll: the readiness callback's first consultation fails with EINTR (environment deviation)
    pub callback_eintr_once: bool,
    /// deliveries made during setup without anybody draining (400 fill the self-pipe completely)
    pub prefill: u32,
    /// queued deliveries are records of the timer kind (no sender in the kernel's layout)
    pub timer_records: bool,
    /// during setup an addition refused by panic is made (and caught): the id table is poisoned
    pub poison_in_setup: bool,
}

fn log_yield<E: Ex>(o: &E::Output) {
    let (s, v, ok) = E::decode(o);
    sched::log("yield", s as u64, (v << 1) | ok as u64);
}

fn readable(fd: i32) -> bool {
    let mut p = libc::pollfd { fd, events: libc::POLLIN, revents: 0 };
    unsafe { libc::poll(&mut p, 1, 0) > 0 }
}

fn consumer_body<E: Ex>(s: &IS<E>, p: &IP) {
    let c = s.consumer.lock().unwrap().take().expect("consumer");
    let fd = s.fd;
    let mut rounds = 0;
    let c = match c {
        Consumer::Sig(mut sig) => {
            if p.mode == Mode::Forever {
                sched::log("forever_call", 0, 0);
                if p.forever_one {
                    loop {
                        let x = sig.forever().next();
                        match x {
                            Some(x) => log_yield::<E>(&x),
                            None => break,
                        }
                    }
                } else {
                    for x in sig.forever() {
                        log_yield::<E>(&x);
                    }
                }
                sched::log("forever_none", 0, 0);
                if p.prop == "C11" {
                    // calls that start after close must return at once, again and again
                    for _ in 0..2 {
                        sched::log("after_close_call", 0, 0);
                        let again = sig.forever().next();
                        sched::log("after_close_ret", again.is_some() as u64, 0);
                        for x in sig.wait() {
                            log_yield::<E>(&x);
                        }
                        sched::log("after_close_ret", 0, 1);
                    }
                }
            } else {
                loop {
                    if sig.is_closed() {
                        break;
                    }
                    sched::log("wait_call", 0, 0);
                    let pend = sig.wait();
                    for x in pend {
                        log_yield::<E>(&x);
                    }
                    sched::log("wait_ret", 0, 0);
                    rounds += 1;
                    if rounds > p.max_rounds {
                        sched::log("k_gave_up", 0, 0);
                        break;
                    }
                }
                if p.prop == "C11" && sig.is_closed() {
                    // calls that start after close must return at once, again and again
                    for _ in 0..3 {
                        sched::log("after_close_call", 0, 0);
                        for x in sig.wait() {
                            log_yield::<E>(&x);
                        }
                        sched::log("after_close_ret", 0, 1);
                    }
                    let again = sig.forever().next();
                    sched::log("after_close_ret", again.is_some() as u64, 0);
                }
            }
            Consumer::Sig(sig)
        }
        Consumer::Delivery(mut d) => {
            loop {
                if d.handle().is_closed() {
                    break;
                }
                sched::wait_readable(fd);
                sched::log("pending_call", 0, 0);
                if p.second_scanner && rounds == 0 {
                    let mine = d.pending();
                    let other = d.pending();
                    *s.batch.lock().unwrap() = Some(other);
                    unsafe {
                        libc::write(s.handoff[1], b"x".as_ptr() as *const _, 1);
                    }
                    for x in mine {
                        log_yield::<E>(&x);
                    }
                } else {
                    for x in d.pending() {
                        log_yield::<E>(&x);
                    }
                }
                sched::log("pending_ret", 0, 0);
                rounds += 1;
                if rounds > p.max_rounds {
                    sched::log("k_gave_up", 0, 0);
                    break;
                }
            }
            Consumer::Delivery(d)
        }
        Consumer::Poll(mut it) => {
            let mut eintr_left = p.callback_eintr_once;
            loop {
                let mut consulted_false = false;
                sched::log("poll_call", 0, 0);
                let r = it.poll_signal(&mut |r: &mut UnixStream| {
                    if eintr_left {
                        eintr_left = false;
                        sched::log("cb_error", 0, 0);
                        return Err(std::io::Error::from(std::io::ErrorKind::Interrupted));
                    }
                    // the adapters' has_signals: try to read one byte; "not ready" arms the waker
                    let fd = r.as_raw_fd();
                    sched::point("cb_poll_read", fd as u64);
                    let mut got = false;
                    if readable(fd) {
                        let mut b = [0u8; 1];
                        let n = unsafe { libc::recv(fd, b.as_mut_ptr() as *mut _, 1, libc::MSG_DONTWAIT) };
                        got = n > 0;
                    }
                    sched::log("cb_consult", got as u64, 0);
                    if !got {
                        consulted_false = true;
                    }
                    Ok(got)
                });
                match r {
                    PollResult::Signal(x) => log_yield::<E>(&x),
                    PollResult::Pending => {
                        sched::log("poll_pending", consulted_false as u64, 0);
                        // the task is parked until its waker fires (readiness of the pipe) - and a waker is
                        // armed only by a callback that answered "nothing available": without one the task
                        // is never polled again
                        if consulted_false {
                            sched::wait_readable(fd);
                        } else {
                            sched::log("stranded", 0, 0);
                            sched::wait_readable(s.never[0]);
                        }
                    }
                    PollResult::Closed => {
                        sched::log("poll_closed", 0, 0);
                        if p.prop == "C11" {
                            for _ in 0..2 {
                                let mut dummy = |_r: &mut UnixStream| -> Result<bool, std::io::Error> { Ok(false) };
                                match it.poll_signal(&mut dummy) {
                                    PollResult::Closed => sched::log("after_close_ret", 0, 2),
                                    PollResult::Signal(x) => log_yield::<E>(&x),
                                    _ => sched::log("after_close_ret", 1, 2),
                                }
                            }
                        }
                        break;
                    }
                    PollResult::Err(e) => {
                        if e.kind() == std::io::ErrorKind::Interrupted && p.callback_eintr_once {
                            // the injected failure, passed on as it must be: the task polls again
                            sched::log("poll_err", 0, 0);
                        } else {
                            sched::fail(format!("C11: poll_signal returned an error: {}", e));
                        }
                    }
                }
                rounds += 1;
                if rounds > p.max_rounds * 3 {
                    sched::log("k_gave_up", 0, 0);
                    break;
                }
            }
            Consumer::Poll(it)
        }
    };
    sched::log("k_done", s.handle.is_closed() as u64, 0);
    *s.consumer.lock().unwrap() = Some(c);
}

struct Deliv {
    begin: usize,
    end: usize,
    sig: i32,
    value: u64,
    store: usize,
}

fn deliveries(log: &[Ev]) -> Vec<Deliv> {
    let mut out: Vec<Deliv> = Vec::new();
    let mut stack: std::collections::HashMap<u8, Vec<usize>> = std::collections::HashMap::new();
    let mut last_write: std::collections::HashMap<(u8, u8), usize> = std::collections::HashMap::new();
    for (i, ev) in log.iter().enumerate() {
        match ev.tag {
            "deliver_begin" => {
                out.push(Deliv { begin: i, end: usize::MAX, sig: ev.a as i32, value: ev.b, store: usize::MAX });
                stack.entry(ev.tid).or_default().push(out.len() - 1);
            }
            "deliver_end" => {
                if let Some(d) = stack.entry(ev.tid).or_default().pop() {
                    out[d].end = i;
                    if out[d].store == usize::MAX {
                        out[d].store = i;
                    }
                }
            }
            "op_store" | "op_cas_ok" | "op_rmw" | "op_swap" => {
                if ev.depth > 0 {
                    last_write.insert((ev.tid, ev.depth), i);
                }
            }
            "wake" => {
                if ev.depth > 0 {
                    if let Some(&d) = stack.get(&ev.tid).and_then(|s| s.last()) {
                        if out[d].store == usize::MAX {
                            out[d].store = last_write.get(&(ev.tid, ev.depth)).copied().unwrap_or(i);
                        }
                    }
                }
            }
            _ => {}
        }
    }
    out
}

/// Deliveries of watched signals (ended, begun after the signal was added and before close) that
/// have no yield after their store.
fn unreported(log: &[Ev], initial: &[i32], match_values: bool) -> Option<String> {
    let ds = deliveries(log);
    let close_at = log.iter().position(|e| e.tag == "close_call").unwrap_or(usize::MAX);
    for d in &ds {
        if d.end == usize::MAX || d.begin > close_at {
            continue;
        }
        // watched: listed at construction, added before the delivery began, or - for a delivery inside an
        // add_signal call that has not returned yet - the instance's action did run (it made its wake attempt)
        let tid = log[d.begin].tid;
        let woke = log[d.begin..d.end].iter().any(|e| e.tag == "wake" && e.tid == tid && e.depth > 0);
        let watched = initial.contains(&d.sig) || log[..d.begin].iter().any(|e| e.tag == "add_ret" && e.a as i32 == d.sig) || woke;
        if !watched {
            continue;
        }
        let reported = log.iter().enumerate().any(|(i, e)| e.tag == "yield" && e.a as i32 == d.sig && i > d.store && (!match_values || (e.b >> 1) == d.value));
        if !reported {
            return Some(format!("a delivery of watched signal {} (payload {}) was never reported after it happened", d.sig, d.value));
        }
    }
    None
}

pub fn build<E: Ex>(p: IP) -> Scenario<Arc<IS<E>>>
where
    E::Output: Send,
    E::Storage: Send + Sync,
{
    let pp = p.clone();
    let setup = move || {
        // signals that may be raised before they are watched get a benign handler first
        fresh_registry(&[(S1, Disp::Plain), (S2, Disp::Plain)]);
        let (consumer, handle, fd) = match pp.mode {
            Mode::Wait | Mode::Forever => {
                let s = SignalsInfo::<E>::new(&pp.initial).expect("Signals::new");
                let h = s.handle();
                (Consumer::Sig(s), h, -1)
            }
            Mode::Pending => {
                let (r, w) = UnixStream::pair().unwrap();
                let fd = r.as_raw_fd();
                let d = SignalDelivery::with_pipe(r, w, E::default(), &pp.initial).expect("with_pipe");
                let h = d.handle();
                (Consumer::Delivery(d), h, fd)
            }
            Mode::Poll => {
                let (r, w) = UnixStream::pair().unwrap();
                let fd = r.as_raw_fd();
                let d = SignalDelivery::with_pipe(r, w, E::default(), &pp.initial).expect("with_pipe");
                let h = d.handle();
                (Consumer::Poll(OwningSignalIterator::new(d)), h, fd)
            }
        };
        let mut handoff = [0i32; 2];
        unsafe {
            libc::pipe(handoff.as_mut_ptr());
        }
        let mut never = [0i32; 2];
        unsafe {
            libc::pipe(never.as_mut_ptr());
        }
        if pp.poison_in_setup {
            let r = std::panic::catch_unwind(std::panic::AssertUnwindSafe(|| handle.add_signal(libc::SIGKILL)));
            assert!(r.is_err());
        }
        sched::QUEUE_AS_TIMER.store(pp.timer_records, std::sync::atomic::Ordering::SeqCst);
        for _ in 0..pp.prefill {
            sched::setup_raise(pp.initial[0]);
        }
        if let Some(x) = pp.refused_readd {
            let r = handle.add_signal(x);
            assert!(r.is_err(), "the OS accepts {}", x);
        }
        Arc::new(IS { consumer: Mutex::new(Some(consumer)), handle, fd, batch: Mutex::new(None), handoff, never })
    };
    let mut threads: Vec<ThreadSpec<Arc<IS<E>>>> = Vec::new();
    let pk = p.clone();
    threads.push(ThreadSpec {
        name: "K",
        body: Box::new(move |s: &Arc<IS<E>>| consumer_body::<E>(s, &pk)),
        nest_signals: p.nest_on_k.clone(),
        max_nest: p.max_nest,
    });
    if p.second_scanner {
        threads.push(ThreadSpec {
            name: "K2",
            body: Box::new(move |s: &Arc<IS<E>>| {
                sched::wait_readable(s.handoff[0]);
                let b = s.batch.lock().unwrap().take();
                if let Some(b) = b {
                    for x in b {
                        log_yield::<E>(&x);
                    }
                }
            }),
            nest_signals: vec![],
            max_nest: 0,
        });
    }
    let mut adder_threads: Vec<ThreadSpec<Arc<IS<E>>>> = Vec::new();
    for &sg in &p.adders {
        adder_threads.push(ThreadSpec {
            name: "A",
            body: Box::new(move |s: &Arc<IS<E>>| {
                sched::log("add_call", sg as u64, 0);
                s.handle.clone().add_signal(sg).expect("add_signal");
                sched::log("add_ret", sg as u64, 0);
            }),
            nest_signals: vec![],
            max_nest: 0,
        });
    }
    if let Some(x) = p.refused_readd {
        adder_threads.push(ThreadSpec {
            name: "R",
            body: Box::new(move |s: &Arc<IS<E>>| {
                let r = s.handle.clone().add_signal(x);
                sched::log("refused_add", r.is_err() as u64, x as u64);
            }),
            nest_signals: vec![],
            max_nest: 0,
        });
    }
    if p.adders_first {
        threads.append(&mut adder_threads);
    }
    let dn = ["D1", "D2", "D3"];
    for (di, sigs) in p.deliverers.iter().enumerate() {
        let sigs = sigs.clone();
        threads.push(ThreadSpec {
            name: dn[di],
            body: Box::new(move |_s: &Arc<IS<E>>| {
                for (k, &sg) in sigs.iter().enumerate() {
                    if E::RAW {
                        sched::raise_value(sg, 0x100 * (di + 1) + k + 1);
                    } else {
                        sched::raise(sg);
                    }
                }
            }),
            nest_signals: vec![],
            max_nest: 0,
        });
    }
    threads.append(&mut adder_threads);
    if p.free_closers == 0 {
        let init = p.initial.clone();
        let prop = p.prop;
        let mv = p.match_values;
        threads.push(ThreadSpec {
            name: "X",
            body: Box::new(move |s: &Arc<IS<E>>| {
                sched::await_quiescence();
                // Everybody else is done or blocked. A consumer that is blocked now while a
                // delivered signal is unreported has lost a wake-up.
                if prop == "C09" {
                    let e = sched::exec();
                    let k_blocked = matches!(e.threads[1].pending, sched::Pending::BlockingRead(_));
                    if k_blocked {
                        if let Some(m) = unreported(&e.log, &init, mv) {
                            sched::fail(format!("C09: consumer is blocked with no wake-up outstanding although {}", m));
                        }
                    }
                }
                sched::log("close_call", 0, 0);
                s.handle.close();
                sched::log("close_ret", 0, 0);
            }),
            nest_signals: vec![],
            max_nest: 0,
        });
    } else {
        let rejected_first = p.closer_after_rejected_add;
        for i in 0..p.free_closers {
            threads.push(ThreadSpec {
                name: if i == 0 { "X1" } else { "X2" },
                body: Box::new(move |s: &Arc<IS<E>>| {
                    let h = s.handle.clone();
                    if rejected_first && i == 0 {
                        let r = std::panic::catch_unwind(std::panic::AssertUnwindSafe(|| h.add_signal(libc::SIGKILL)));
                        sched::log("rejected_add", r.is_err() as u64, 0);
                    }
                    sched::log("close_call", i as u64, 0);
                    h.close();
                    sched::log("close_ret", i as u64, 0);
                    sched::log("is_closed", h.is_closed() as u64, 0);
                }),
                nest_signals: vec![],
                max_nest: 0,
            });
        }
    }
    let pf = p.clone();
    let finish = move |s: Arc<IS<E>>, e: &mut Exec| -> Result<u64, String> {
        let closed_end = s.handle.is_closed();
        let s = Arc::try_unwrap(s).map_err(|_| "engine: state shared".to_string())?;
        unsafe {
            libc::close(s.handoff[0]);
            libc::close(s.handoff[1]);
            libc::close(s.never[0]);
            libc::close(s.never[1]);
        }
        drop(s); // unregisters everything the instance owns, closes the pipe
        if !e.panics.is_empty() {
            return Err(format!("{}: thread panicked: {:?}", pf.prop, e.panics));
        }
        check(&e.log, &pf, closed_end)
    };
    Scenario {
        name: p.name.to_string(),
        opts: Opts { stale_reads: false, stale_depth: 2, max_spurious: 0, horizon: 60_000, log_ops: false, log_handler_ops: true, reduce: true, no_discipline: false, nest_value_t1: if E::RAW { 0x900 } else { 0 }, post_points: E::RAW, no_race_check: false, start_points: false, endurance: 0 },
        signals: vec![S1, S2],
        setup: Box::new(setup),
        threads,
        finish: Box::new(finish),
        monitor: None,
    }
}

fn check(log: &[Ev], p: &IP, closed_end: bool) -> Result<u64, String> {
    let ds = deliveries(log);
    let gave_up = log.iter().any(|e| e.tag == "k_gave_up");
    match p.prop {
        "C09" => {
            if gave_up {
                return Err("C09: consumer kept being woken without ever reaching quiescence (round horizon)".into());
            }
            if let Some(m) = unreported(log, &p.initial, p.match_values) {
                return Err(format!("C09: {}", m));
            }
            if log.iter().any(|e| e.tag == "stranded") {
                return Err("C09: the poller was told 'pending' in a call in which the readiness callback never answered 'nothing available': it is parked without an armed wake-up".into());
            }
        }
        "C10" => {
            let mut yields: std::collections::HashMap<i32, u64> = std::collections::HashMap::new();
            let mut begun: std::collections::HashMap<i32, u64> = std::collections::HashMap::new();
            let mut added: Vec<i32> = p.initial.clone();
            let mut seen_values: Vec<u64> = Vec::new();
            let mut yield_idx: std::collections::HashMap<u64, usize> = std::collections::HashMap::new();
            for (i, ev) in log.iter().enumerate() {
                match ev.tag {
                    "add_call" => added.push(ev.a as i32),
                    "deliver_begin" => {
                        if added.contains(&(ev.a as i32)) {
                            *begun.entry(ev.a as i32).or_insert(0) += 1;
                        }
                    }
                    "yield" => {
                        let s = ev.a as i32;
                        if !added.contains(&s) {
                            return Err(format!("C10: iterator yielded signal {} which it was never asked to watch", s));
                        }
                        let y = yields.entry(s).or_insert(0);
                        *y += 1;
                        if *y > begun.get(&s).copied().unwrap_or(0) {
                            return Err(format!("C10: signal {} yielded {} times although only {} deliveries had begun", s, y, begun.get(&s).copied().unwrap_or(0)));
                        }
                        let (value, ok) = (ev.b >> 1, ev.b & 1);
                        if ok != 1 {
                            return Err(format!("C10: record yielded for signal {} is not a faithful copy of the delivery's information", s));
                        }
                        if value != 0 {
                            // info-carrying: must match exactly one delivery of that signal that has begun
                            let d = ds.iter().find(|d| d.value == value && d.sig == s && d.begin < i);
                            if d.is_none() {
                                return Err(format!("C10: record with payload {:#x} for signal {} matches no delivery that has begun", value, s));
                            }
                            if seen_values.contains(&value) {
                                return Err(format!("C10: delivery with payload {:#x} yielded more than one record", value));
                            }
                            seen_values.push(value);
                            yield_idx.insert(value, i);
                        }
                    }
                    _ => {}
                }
            }
            // order of records of one signal whose deliveries did not overlap
            for a in &ds {
                for b in &ds {
                    if a.sig == b.sig && a.end < b.begin && a.value != 0 && b.value != 0 {
                        if let (Some(&ya), Some(&yb)) = (yield_idx.get(&a.value), yield_idx.get(&b.value)) {
                            if ya > yb {
                                return Err(format!("C10: records of signal {} came out of delivery order ({:#x} after {:#x})", a.sig, a.value, b.value));
                            }
                        }
                    }
                }
            }
        }
        "C17" => {
            // every origin handed out is that of one of the deliveries: sent by this process itself
            let mut begun = 0u64;
            let mut yields = 0u64;
            for ev in log {
                match ev.tag {
                    "deliver_begin" => begun += 1,
                    "yield" => {
                        yields += 1;
                        if ev.b & 1 != 1 {
                            return Err(format!("C17: an origin reported for signal {} does not carry the facts of any of the deliveries (all were sent by this process itself: cause class sent, own pid and uid)", ev.a));
                        }
                        if yields > begun {
                            return Err("C17: more origins reported than deliveries had begun".into());
                        }
                    }
                    _ => {}
                }
            }
        }
        "C11" => {
            if gave_up {
                return Err("C11: consumer did not terminate after close (round horizon)".into());
            }
            if !closed_end {
                return Err("C11: is_closed() is false at the end although close() was called".into());
            }
            let first_close_ret = log.iter().position(|e| e.tag == "close_ret");
            for (i, ev) in log.iter().enumerate() {
                match ev.tag {
                    "is_closed" | "k_done" => {
                        if let Some(c) = first_close_ret {
                            if i > c && ev.a != 1 {
                                return Err("C11: is_closed() returned false after close() had returned".into());
                            }
                        }
                    }
                    "after_close_ret" => {
                        if ev.a != 0 && ev.b == 0 {
                            return Err("C11: the infinite iterator yielded again after it had ended".into());
                        }
                        if ev.a != 0 && ev.b == 2 {
                            return Err("C11: poll_signal did not report Closed when called again after close".into());
                        }
                    }
                    "poll_pending" => {
                        if ev.a != 1 {
                            return Err("C11: poll_signal returned Pending without consulting the readiness callback in that call (no wake-up is armed: an async consumer is stranded)".into());
                        }
                    }
                    _ => {}
                }
            }
            if p.mode == Mode::Forever && !log.iter().any(|e| e.tag == "forever_none") {
                return Err("C11: the infinite iterator did not end after close".into());
            }
        }
        _ => {}
    }
    let mut h: u64 = 0xcbf29ce484222325;
    let mut mix = |x: u64| {
        h ^= x.wrapping_add(0x9e3779b97f4a7c15);
        h = h.wrapping_mul(0x100000001b3);
    };
    for ev in log {
        match ev.tag {
            "yield" => mix(0x1000 + ev.a * 7 + (ev.b >> 1) + ((ev.tid as u64) << 40)),
            "wait_ret" | "pending_ret" => mix(1),
            "poll_pending" => mix(2),
            "poll_closed" | "forever_none" => mix(3),
            _ => {}
        }
    }
    Ok(h)
}

fn ip(name: &'static str, prop: &'static str, mode: Mode) -> IP {
    IP { name, prop, mode, initial: vec![S1], deliverers: vec![], adders: vec![], free_closers: 0, nest_on_k: vec![], max_nest: 1, max_rounds: 8, match_values: false, forever_one: false, second_scanner: false, adders_first: false, closer_after_rejected_add: false, refused_readd: None, callback_eintr_once: false, prefill: 0, timer_records: false, poison_in_setup: false }
}

/// C09: the instance is constructed while its signals are already being delivered (from another thread and
/// nested in the constructing thread): a delivery that its action has recorded is reported by the first wait.
pub struct CtorS {
    handle: Mutex<Option<Handle>>,
}

pub fn build_ctor(name: &'static str, prop: &'static str) -> Scenario<Arc<CtorS>> {
    let setup = || {
        fresh_registry(&[(S1, Disp::Plain), (S2, Disp::Plain)]);
        Arc::new(CtorS { handle: Mutex::new(None) })
    };
    let k = ThreadSpec {
        name: "K",
        body: Box::new(move |s: &Arc<CtorS>| {
            let mut sig = SignalsInfo::<SignalOnly>::new(&[S1, S2]).expect("new");
            *s.handle.lock().unwrap() = Some(sig.handle());
            sched::log("constructed", 0, 0);
            let mut rounds = 0;
            loop {
                if sig.is_closed() {
                    break;
                }
                sched::log("wait_call", 0, 0);
                for x in sig.wait() {
                    log_yield::<SignalOnly>(&x);
                }
                sched::log("wait_ret", 0, 0);
                rounds += 1;
                if rounds > 8 {
                    sched::log("k_gave_up", 0, 0);
                    break;
                }
            }
            sched::log("k_done", 0, 0);
        }),
        nest_signals: vec![S1],
        max_nest: 1,
    };
    let d = ThreadSpec {
        name: "D1",
        body: Box::new(move |_s: &Arc<CtorS>| {
            sched::raise(S1);
            sched::raise(S2);
        }),
        nest_signals: vec![],
        max_nest: 0,
    };
    let x = ThreadSpec {
        name: "X",
        body: Box::new(move |s: &Arc<CtorS>| {
            sched::await_quiescence();
            let e = sched::exec();
            let k_blocked = matches!(e.threads[1].pending, sched::Pending::BlockingRead(_));
            if k_blocked {
                if let Some(m) = unreported(&e.log, &[], false) {
                    sched::fail(format!("{}: consumer is blocked with no wake-up outstanding although {}", prop, m));
                }
            }
            sched::log("close_call", 0, 0);
            if let Some(h) = s.handle.lock().unwrap().as_ref() {
                h.close();
            }
            sched::log("close_ret", 0, 0);
        }),
        nest_signals: vec![],
        max_nest: 0,
    };
    Scenario {
        name: name.to_string(),
        opts: Opts { stale_reads: false, stale_depth: 2, max_spurious: 0, horizon: 60_000, log_ops: false, log_handler_ops: true, reduce: true, no_discipline: false, nest_value_t1: 0, post_points: false, no_race_check: false, start_points: false, endurance: 0 },
        signals: vec![S1, S2],
        setup: Box::new(setup),
        threads: vec![k, d, x],
        finish: Box::new(move |s, e| {
            drop(s);
            if !e.panics.is_empty() {
                return Err(format!("{}: thread panicked: {:?}", prop, e.panics));
            }
            if e.log.iter().any(|ev| ev.tag == "k_gave_up") {
                return Err(format!("{}: consumer kept being woken without ever reaching quiescence (round horizon)", prop));
            }
            if let Some(m) = unreported(&e.log, &[], false) {
                return Err(format!("{}: {}", prop, m));
            }
            let mut h: u64 = 0xcbf29ce484222325;
            for ev in e.log.iter().filter(|ev| ev.tag == "yield" || ev.tag == "wait_ret") {
                h ^= (ev.a + 1).wrapping_mul(0x9e3779b97f4a7c15);
                h = h.wrapping_mul(0x100000001b3);
            }
            Ok(h)
        }),
        monitor: None,
    }
}

/// The iterator-side scenario of C07: the per-signal channels of the info-carrying exfiltrators are
/// reached through a pointer; a scanner and a retried (refused) addition of the same number meet.
pub fn scenarios_c07(tier: Tier) -> Vec<Item> {
    let q = tier == Tier::Quick;
    let mut p = ip("raw_pending_vs_retry_of_refused_add", "C07", Mode::Pending);
    p.deliverers = vec![vec![S1, S1]];
    p.refused_readd = Some(100);
    vec![item(build::<WithRawSiginfo>(p), Some(if q { 1 } else { 2 }), "WithRawSiginfo: the consumer scans (all 128 slots) while another thread retries an addition the OS refuses (slot 100 already holds a channel from the first attempt): no operation on released memory")]
}

/// The schedule part of C17: the origin exfiltrator under deliveries that overlap on several threads.
pub fn scenarios_c17(tier: Tier) -> Vec<Item> {
    let q = tier == Tier::Quick;
    let mut p = ip("origin_wait_deliveries_on_three_threads", "C17", Mode::Wait);
    p.initial = vec![S1];
    p.deliverers = vec![vec![S1, S1], vec![S1], vec![S1]];
    p.nest_on_k = vec![S1];
    let mut v = vec![item(build::<signal_hook::iterator::exfiltrator::origin::WithOrigin>(p), Some(1), "WithOrigin: deliveries of one signal whose handlers run on three threads at once (+ one nested in the consumer): every origin that comes out is that of a delivery")];
    let mut p = ip("origin_forever_burst7", "C17", Mode::Forever);
    p.deliverers = vec![vec![S1, S1, S1, S1, S1, S1, S1]];
    p.max_rounds = 12;
    p.nest_on_k = vec![S1];
    v.push(item(build::<signal_hook::iterator::exfiltrator::origin::WithOrigin>(p), Some(1), "WithOrigin: a burst of 7 deliveries (the per-signal buffer holds 5) + one more nested in the consumer at every boundary of its drain"));
    if !q {
        let mut p = ip("origin_wait_deliveries_on_two_threads", "C17", Mode::Wait);
        p.initial = vec![S1];
        p.deliverers = vec![vec![S1], vec![S1]];
        v.push(item(build::<signal_hook::iterator::exfiltrator::origin::WithOrigin>(p), Some(2), "WithOrigin: handlers of one signal on two threads at once, deviation bound 2"));
    }
    v
}

pub fn scenarios(prop: &str, tier: Tier) -> Vec<Item> {
    let q = tier == Tier::Quick;
    let b = |quick: u32, thorough: u32| Some(if q { quick } else { thorough });
    let prop: &'static str = match prop {
        "C09" => "C09",
        "C10" => "C10",
        _ => "C11",
    };
    let mut v = Vec::new();
    match prop {
        "C09" | "C10" => {
            for (mode, mname) in [(Mode::Wait, "wait"), (Mode::Forever, "forever"), (Mode::Pending, "pending"), (Mode::Poll, "poll")] {
                let mut p = ip(Box::leak(format!("sigonly_{}_2d", mname).into_boxed_str()), prop, mode);
                p.initial = vec![S1, S2, S1];
                p.deliverers = vec![vec![S1, S1], vec![S2]];
                p.nest_on_k = vec![S1];
                v.push(item(build::<SignalOnly>(p), b(1, 2), "SignalOnly: 2 delivery threads (S1 twice, S2) + nested arrival in the consumer"));
            }
            let mut p = ip("sigonly_wait_add_signal", prop, Mode::Wait);
            p.deliverers = vec![vec![S1], vec![S2]];
            p.adders = vec![S2];
            v.push(item(build::<SignalOnly>(p), b(1, 2), "add_signal(S2) from another thread vs deliveries of S1 and S2"));
            if prop == "C10" {
                let mut p = ip("origin_wait_timer_records", prop, Mode::Wait);
                p.deliverers = vec![vec![S1, S1]];
                p.timer_records = true;
                v.push(item(build::<signal_hook::iterator::exfiltrator::origin::WithOrigin>(p), b(1, 2), "WithOrigin: deliveries whose records are of the timer kind (si_code SI_TIMER: no sender): the origin handed out says so"));
            }
            v.push(item(build_ctor("sigonly_constructed_under_deliveries", prop), b(1, 2), "the instance is constructed while its signals are being delivered (another thread + nested in the constructor): what its actions recorded is reported by the waits that follow"));
            let mut p = ip("raw_wait_two_threads_add_same_signal", prop, Mode::Wait);
            p.adders = vec![S2, S2];
            p.adders_first = true;
            p.deliverers = vec![vec![S2, S2]];
            p.match_values = true;
            v.push(item(build::<WithRawSiginfo>(p), b(1, 2), "two threads add the same (new) signal through clones of the handle, then it is delivered: one record per delivery"));
            let mut p = ip("sigonly_pending_two_scanners", prop, Mode::Pending);
            p.deliverers = vec![vec![S1]];
            p.second_scanner = true;
            v.push(item(build::<SignalOnly>(p), b(1, 2), "the consumer takes two batches from pending() and another thread scans one of them at the same time: one delivery is reported by at most one of them"));
            let mut p = ip("sigonly_forever_one_item_per_iterator", prop, Mode::Forever);
            p.initial = vec![S1, S2];
            p.deliverers = vec![vec![S1, S2], vec![S2]];
            p.forever_one = true;
            v.push(item(build::<SignalOnly>(p), b(1, 2), "two watched signals; the consumer makes a new forever() iterator for every single item and drops it: what the dropped iterator had not handed out yet must come out of the next one"));
            let mut p = ip("sigonly_forever_readd_watched", prop, Mode::Forever);
            p.deliverers = vec![vec![S1, S1]];
            p.adders = vec![S1];
            v.push(item(build::<SignalOnly>(p), b(1, 2), "add_signal of an already watched signal (a no-op) from another thread vs its deliveries"));
            let mut p = ip("raw_wait_readd_watched_after_refused_add", prop, Mode::Wait);
            p.deliverers = vec![vec![S1, S1]];
            p.adders = vec![S1];
            p.adders_first = true;
            p.match_values = true;
            p.poison_in_setup = true;
            v.push(item(build::<WithRawSiginfo>(p), b(1, 2), "re-adding a watched signal after an earlier addition was refused by panic (and survived): still one record per delivery"));
            let mut p = ip("raw_wait_readd_watched", prop, Mode::Wait);
            p.deliverers = vec![vec![S1, S1]];
            p.adders = vec![S1];
            p.match_values = true;
            v.push(item(build::<WithRawSiginfo>(p), b(1, 2), "the same with the info-carrying exfiltrator"));
            for (mode, mname) in [(Mode::Wait, "wait"), (Mode::Poll, "poll")] {
                let mut p = ip(Box::leak(format!("raw_{}_2d", mname).into_boxed_str()), prop, mode);
                p.initial = vec![S1, S1]; // a signal listed twice is watched once
                p.deliverers = vec![vec![S1, S1], vec![S1]];
                p.nest_on_k = vec![S1];
                p.match_values = true;
                v.push(item(build::<WithRawSiginfo>(p), b(1, 2), "WithRawSiginfo: 3 queued deliveries of one signal from 2 threads + nested arrival"));
            }
            let mut p = ip("raw_forever_burst7", prop, Mode::Forever);
            p.deliverers = vec![vec![S1, S1, S1, S1, S1, S1, S1]];
            p.max_rounds = 12;
            p.nest_on_k = vec![S1];
            v.push(item(build::<WithRawSiginfo>(p), b(1, 2), "burst of 7 deliveries (longer than the 5-deep buffer) + one more nested in the consumer at every boundary of its drain"));
        }
        _ => {
            for (mode, mname) in [(Mode::Poll, "poll"), (Mode::Wait, "wait"), (Mode::Forever, "forever"), (Mode::Pending, "pending")] {
                let mut p = ip(Box::leak(format!("close_{}", mname).into_boxed_str()), prop, mode);
                p.deliverers = vec![vec![S1]];
                p.free_closers = 1;
                v.push(item(build::<SignalOnly>(p), b(2, 4), "close() at any instant vs the consumer's checks, reads and scans, with one delivery"));
            }
            for (mode, mname) in [(Mode::Wait, "wait"), (Mode::Forever, "forever")] {
                let mut p = ip(Box::leak(format!("close_after_rejected_add_{}", mname).into_boxed_str()), prop, mode);
                p.deliverers = vec![vec![S1]];
                p.free_closers = 1;
                p.closer_after_rejected_add = true;
                v.push(item(build::<SignalOnly>(p), b(1, 3), "a handle clone makes an addition that is refused by panic (caught), then closes: the consumer is released, is_closed sticks"));
            }
            let mut p = ip("close_wait_vs_add_of_new_signal", prop, Mode::Wait);
            p.deliverers = vec![vec![S1]];
            p.adders = vec![S2];
            p.free_closers = 1;
            v.push(item(build::<SignalOnly>(p), b(1, 3), "close() vs add_signal of a signal the instance does not watch yet, from another thread: closed stays closed, the consumer ends"));
            let mut p = ip("close_wait_selfpipe_full", prop, Mode::Wait);
            p.prefill = 400;
            p.free_closers = 1;
            p.max_rounds = 3;
            v.push(item(build::<SignalOnly>(p), b(1, 2), "close() while the self-pipe is completely full (400 undrained deliveries): it returns and the consumer ends"));
            let mut p = ip("close_poll_callback_fails_once", prop, Mode::Poll);
            p.deliverers = vec![vec![S1]];
            p.free_closers = 1;
            p.callback_eintr_once = true;
            v.push(item(build::<SignalOnly>(p), b(2, 3), "async-style poller whose readiness callback fails once with EINTR: the failure is passed on, never turned into Pending without an armed wake-up"));
            let mut p = ip("close_twice_poll", prop, Mode::Poll);
            p.free_closers = 2;
            v.push(item(build::<SignalOnly>(p), b(2, 4), "two handle clones closing concurrently vs an async-style poller"));
            let mut p = ip("close_raw_forever", prop, Mode::Forever);
            p.deliverers = vec![vec![S1, S1]];
            p.free_closers = 1;
            v.push(item(build::<WithRawSiginfo>(p), b(2, 3), "close vs forever() with the info-carrying exfiltrator"));
        }
    }
    v
}
