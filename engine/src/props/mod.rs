//! Per-property scenario sets, the check driver and evidence writing.
#![allow(clippy::all)]
use crate::explore::{explore, replay_once, Config, Runnable, Summary};
use serde_json::{json, Value};
use std::time::{Duration, Instant};

pub mod chan;
pub mod reg;
pub mod iter;
pub mod c03;

#[derive(Clone, Copy, PartialEq, Debug)]
pub enum Tier {
    Quick,
    Thorough,
}

pub struct Item {
    pub run: Box<dyn Runnable>,
    pub bound: Option<u32>,
    pub note: &'static str,
}

pub fn item(run: impl Runnable + 'static, bound: Option<u32>, note: &'static str) -> Item {
    Item { run: Box::new(run), bound, note }
}

/// Engine-A scenario sets.
pub fn scenarios(prop: &str, tier: Tier) -> Option<Vec<Item>> {
    match prop {
        "C07" => {
            let mut v = chan::scenarios(prop, tier);
            v.extend(iter::scenarios_c07(tier));
            Some(v)
        }
        "C06" | "C08" => Some(chan::scenarios(prop, tier)),
        "C01" | "C02" | "C04" | "C18" => Some(reg::scenarios(prop, tier)),
        "C09" | "C10" | "C11" => Some(iter::scenarios(prop, tier)),
        "C03" => Some(c03::scenarios(tier)),
        _ => None,
    }
}

pub fn find_scenario(prop: &str, name: &str) -> Option<Item> {
    for tier in [Tier::Quick, Tier::Thorough] {
        if let Some(v) = scenarios(prop, tier) {
            for it in v {
                if it.run.name() == name {
                    return Some(it);
                }
            }
        }
    }
    None
}

pub struct PropMeta {
    pub rule: &'static str,
    pub assumptions: Vec<&'static str>,
}

pub fn meta(prop: &str) -> PropMeta {
    let common = vec![
        "x86-64 Linux; kernel signal delivery and glibc are trusted",
        "std::sync::Arc / Once internals are not scheduled (trusted)",
        "memory model layer generates only C11-consistent executions without load buffering (reads never see later stores)",
        "bounds: see per_scenario (threads, operations per thread, deviation bound)",
    ];
    let tail = "; every choice vector (thread switch at a scheduling point, kernel-delivered signal arriving on any unfinished thread - running, preempted or blocked - at an operation boundary, stale read allowed by the declared orderings, spurious weak-CAS failure) whose deviations fit the scenario's bound is executed on the real code from a reset process-global state; non-trivial = a preemption, nested arrival or stale read actually occurred; distinct = distinct observation digests among those";
    let head = match prop {
        "C01" => "half-lock probes (writers/readers/nested read) and registry removal by id, by signal and by dropping the owner, against delivery threads and arrivals nested in the remover; oracles: snapshot event monitor, vector-clock races open/close vs free, exactly-once release before the removal returns by the remover outside handlers, no invocation in progress/afterwards",
        "C02" => "registry mutation chains vs deliveries; oracle per delivery: action list equals one registry state current during it (must-run / must-not-run from call/return indices, registration order)",
        "C03" => "all built-in actions installed, deliveries on another thread and nested at every boundary of registry/iterator/channel mutators, self-pipes empty and completely full; oracles: no lock/yield/blocking read/heap traffic in handler frames, step bound of un-preempted deliveries, watchdog for blocking or crashing handlers",
        "C04" => "first registration(s) vs deliveries for four previous dispositions; oracle per delivery: previous handler exactly once, first, right convention, kernel info/context",
        "C06" | "C07" | "C08" => "Channel<Tracked> harnesses (producers, consumers, nested sends, fresh/rotated/full start states); oracles: call/return history (nothing invented/duplicated/reordered/lost early/empty too early), vector-clock races on cell accesses (shimmed UnsafeCell), exactly-once drops, own-step bound 4 + failed CAS, no panic",
        "C09" => "real Signals / SignalsInfo<WithRawSiginfo> / SignalDelivery / poll_signal consumers over a socket pair vs delivery threads, add_signal and arrivals nested in the consumer; oracle: lost wake-up at quiescence, every delivery followed by a (payload-exact) yield",
        "C10" => "same executions as C09; oracles: yields <= deliveries begun since added, only watched numbers, payload-exact faithful records, at most one per delivery, delivery order",
        "C11" => "close() from 1-2 handle clones at every instant vs wait/forever/pending/poll consumers that keep calling after close; oracles: sticky flag, termination, forever ends, Pending only after the callback answered not-ready",
        "C18" => "half-lock writers vs re-entering readers, registry mutators incl. a panicking one, relay scenarios (sections/deliveries overlapping so that one is always in flight until the mutator is done); oracle: Musuvathi-Qadeer fair scheduling - any deadlock, any all-yielding state without progress, or the step horizon is a violation",
        _ => "scenario set of the property",
    };
    let rule: &'static str = Box::leak(format!("{}{}", head, tail).into_boxed_str());
    PropMeta { rule, assumptions: common }
}

/// Which violation classes (message prefixes) belong to which property.
pub fn owns(prop: &str, class: &str) -> bool {
    let own: &[&str] = match prop {
        "C06" => &["C06", "race", "uaf"],
        "C07" => &["C07", "race", "uaf"],
        "C08" => &["C08", "C03", "alloc", "livelock", "deadlock", "crash", "hung", "panic"],
        "C01" => &["C01", "race", "uaf"],
        "C02" => &["C02", "crash"],
        "C03" => &["C03", "alloc", "crash", "hung"],
        "C04" => &["C04", "C04w", "crash"],
        "C18" => &["C18", "deadlock", "livelock", "hung", "panic"],
        "C09" => &["C09", "deadlock", "hung"],
        "C10" => &["C10", "uaf"],
        "C11" => &["C11", "deadlock", "livelock", "hung"],
        _ => return class != "engine",
    };
    own.contains(&class)
}

pub fn known_findings() -> Vec<(String, String)> {
    // lines: "finding: property=<id> <text>"; matching is by substring of the violation message
    let mut v = Vec::new();
    if let Ok(s) = std::fs::read_to_string("/verif/known_findings.txt") {
        for l in s.lines() {
            let l = l.trim();
            if let Some(rest) = l.strip_prefix("finding:") {
                let rest = rest.trim();
                if let Some(r2) = rest.strip_prefix("property=") {
                    let mut it = r2.splitn(2, ' ');
                    let id = it.next().unwrap_or("").to_string();
                    let text = it.next().unwrap_or("").trim().to_string();
                    v.push((id, text));
                }
            }
        }
    }
    v
}

pub fn repo_head_pub() -> (String, bool) {
    repo_head()
}

fn repo_head() -> (String, bool) {
    let out = |args: &[&str]| -> String {
        std::process::Command::new("git").args(args).output().map(|o| String::from_utf8_lossy(&o.stdout).trim().to_string()).unwrap_or_default()
    };
    let head = out(&["-C", "/repo", "rev-parse", "HEAD"]);
    let dirty = !out(&["-C", "/repo", "status", "--porcelain", "--untracked-files=no"]).is_empty();
    (head, dirty)
}

pub fn workers_for(nthreads: usize) -> usize {
    let cores = std::thread::available_parallelism().map(|n| n.get()).unwrap_or(4);
    (cores / (nthreads.max(1))).max(1).min(16)
}

/// Runs an engine-A check. Returns the process exit code.
pub fn check_a(prop: &str, tier: Tier, selftest: Value) -> i32 {
    let start = Instant::now();
    let items = scenarios(prop, tier).expect("engine A property");
    let seed: i64 = std::env::var("VERIF_SEED").ok().and_then(|s| s.parse().ok()).unwrap_or(0);
    let per_wall = match tier {
        Tier::Quick => Duration::from_secs(std::env::var("VERIF_SCENARIO_WALL").ok().and_then(|s| s.parse().ok()).unwrap_or(40)),
        Tier::Thorough => Duration::from_secs(std::env::var("VERIF_SCENARIO_WALL").ok().and_then(|s| s.parse().ok()).unwrap_or(600)),
    };
    let mut per = Vec::new();
    let mut total = crate::explore::Stats::default();
    let mut samples: Vec<Value> = Vec::new();
    let mut violations = Vec::new();
    let mut caps = Vec::new();
    let mut vacuous = Vec::new();
    let mut min_bound: Option<u32> = None;
    let mut all_unbounded = true;
    let only = std::env::var("VERIF_ONLY_SCENARIO").ok();
    for it in &items {
        if let Some(o) = &only {
            // development aid: run a single scenario (the evidence then covers only that one)
            if &it.run.name() != o {
                continue;
            }
        }
        let cfg = Config {
            property: prop.to_string(),
            bound: it.bound,
            max_wall: per_wall,
            workers: workers_for(it.run.nthreads().max(1)),
            hang_secs: 30,
        };
        let s: Summary = match explore(&*it.run, &cfg) {
            Ok(s) => s,
            Err(e) => {
                eprintln!("MACHINERY FAILURE in scenario {}: {}", it.run.name(), e);
                return 2;
            }
        };
        eprintln!(
            "[{}] {:<40} bound={:<9} execs={:<8} states={:<9} steps={:<10} distinct={:<6} interleaved={:<8} {:.1}s{}{}",
            prop,
            s.scenario,
            it.bound.map_or("unbounded".to_string(), |b| b.to_string()),
            s.stats.executions,
            s.stats.states,
            s.stats.transitions,
            s.stats.digests.len(),
            s.stats.interleaved,
            s.wall_s,
            if s.stats.capped { " CAPPED" } else { "" },
            if s.violations.is_empty() { String::new() } else { format!(" VIOLATIONS[{}]", s.violations.iter().map(|v| crate::explore::class_of(&v.message)).collect::<Vec<_>>().join(",")) },
        );
        if s.stats.capped {
            caps.push(json!({"scenario": s.scenario, "cap": "wall-clock", "unexplored_subtrees": s.stats.unexplored_jobs}));
        }
        if s.violations.is_empty() && s.stats.executions > 50 && s.stats.digests.len() < 2 && s.nthreads > 1 {
            vacuous.push(s.scenario.clone());
        }
        match it.bound {
            Some(b) => {
                all_unbounded = false;
                min_bound = Some(min_bound.map_or(b, |m| m.min(b)));
            }
            None => {}
        }
        per.push(json!({
            "scenario": s.scenario, "note": it.note, "threads": s.nthreads,
            "deviation_bound": it.bound.map_or(json!("unbounded"), |b| json!(b)),
            "executions": s.stats.executions, "states": s.stats.states, "transitions": s.stats.transitions,
            "interleaved_executions": s.stats.interleaved, "distinct_digests": s.stats.digests.len(),
            "distinct_digests_interleaved": s.stats.digests_interleaved.len(),
            "thread_switches": s.stats.switches, "signals_delivered": s.stats.signals, "stale_reads_taken": s.stats.stale, "executions_with_second_generation_switch": s.stats.reflip_executions,
            "max_decisions_per_execution": s.stats.max_decisions,
            "private_location_reduction": if s.shared_locations > 0 || s.stats.skipped > 0 { json!({"operations_without_scheduling_point": s.stats.skipped, "shared_heap_locations_learned": s.shared_locations, "restarts": s.reduction_restarts, "verified_in_every_execution": true}) } else { json!(null) },
            "completed": !s.stats.capped, "wall_s": s.wall_s,
            "violating_executions": s.violating_executions,
            "violations": s.violations.iter().map(|v| v.message.clone()).collect::<Vec<_>>(),
        }));
        for x in s.samples.iter().take(1) {
            samples.push(json!({"scenario": s.scenario, "execution": x}));
        }
        total.merge(&s.stats);
        violations.extend(s.violations.into_iter());
    }
    // classify violations against known findings
    let known = known_findings();
    let mut exit = 0;
    let mut new_violations = 0;
    let mut known_hits = Vec::new();
    let mut foreign = Vec::new();
    for v in &violations {
        let class = crate::explore::class_of(&v.message);
        if class == "engine" {
            eprintln!("MACHINERY FAILURE in {}: {}", v.scenario, v.message);
            return 2;
        }
        if !owns(prop, &class) {
            eprintln!("NOTE: scenario {} has an execution violating another property's oracle (class {}): {} [replay {}]", v.scenario, class, v.message, v.replay);
            foreign.push(json!({"scenario": v.scenario, "class": class, "message": v.message}));
            continue;
        }
        let k = known.iter().find(|(id, text)| id == prop && !text.is_empty() && v.message.contains(text.as_str()));
        match k {
            Some((_, text)) => {
                println!("KNOWN-FINDING: property={} {}", prop, text);
                known_hits.push(text.clone());
            }
            None => {
                // confirm by replaying twice in fresh processes
                let confirmed = find_scenario(prop, &v.scenario).map(|it| {
                    {
                        let mut g = crate::sched::SHARED_KEYS.lock().unwrap();
                        g.clear();
                        g.extend(v.shared.iter().copied());
                    }
                    let a = replay_once(&*it.run, &v.choices, 15);
                    let b = replay_once(&*it.run, &v.choices, 15);
                    match (a, b) {
                        (Ok(a), Ok(b)) => {
                            if a != b && (a.0.is_some() || b.0.is_some()) {
                                // the schedule violates an oracle in a fresh process too; which oracle fires first (or
                                // whether a second one fires at all) can depend on heap addresses being reused
                                eprintln!("  note: two replays of the violating schedule in {} report differently: {:?} / {:?}", v.scenario, a.0, b.0);
                                Some(true)
                            } else if a != b {
                                eprintln!("replay results differ: {:?} / {:?}", a, b);
                                None
                            } else {
                                Some(a.0.is_some())
                            }
                        }
                        (a, b) => {
                            eprintln!("replay results: {:?} / {:?}", a, b);
                            None
                        }
                    }
                });
                match confirmed {
                    Some(None) => {
                        eprintln!("MACHINERY FAILURE: two replays of the violating schedule in {} disagree with each other: {}", v.scenario, v.message);
                        return 2;
                    }
                    Some(Some(false)) => {
                        eprintln!("  note: the violating execution of {} was observed in a process that had already run other executions; a fresh process does not reproduce it with the same schedule, i.e. the code keeps state from one instance/execution to the next", v.scenario);
                    }
                    _ => {}
                }
                println!("VIOLATION property={} replay={}", prop, v.replay);
                eprintln!("  scenario {}: {}", v.scenario, v.message);
                new_violations += 1;
                exit = 1;
            }
        }
    }
    // fork-based grid that belongs to this property (actions that end the process cannot run in a worker)
    let mut grid_info = json!(null);
    if only.is_none() {
        if let Some(r) = crate::propsb::grid_for_a(prop, tier) {
            grid_info = json!({"cells": r.evaluations, "distinct_outcomes": r.distinct, "rule": r.rule, "violations": r.violations.len()});
            eprintln!("[{}] grid: {} cells, {} distinct outcomes, {} violations", prop, r.evaluations, r.distinct, r.violations.len());
            for v in r.violations.iter().take(10) {
                let path = crate::histex::write_replay_b(prop, &v.case, &v.message);
                println!("VIOLATION property={} replay={}", prop, path);
                eprintln!("  {}", v.message);
                new_violations += 1;
                exit = 1;
            }
        }
    }
    if total.diverged > 0 && exit == 0 {
        eprintln!("MACHINERY FAILURE: {} executions diverged from their schedule prefix (state surviving between executions or uncontrolled nondeterminism); nothing is concluded", total.diverged);
        return 2;
    }
    if !vacuous.is_empty() && exit == 0 {
        eprintln!("MACHINERY FAILURE: nothing collided (one outcome from many executions) in {:?}", vacuous);
        return 2;
    }
    let m = meta(prop);
    let (head, dirty) = repo_head();
    let exhaustive = caps.is_empty();
    let ev = json!({
        "property_id": prop,
        "tier": if tier == Tier::Quick { "quick" } else { "thorough" },
        "seed": seed,
        "level": "model_checking",
        "coverage": {
            "states": total.states.max(1),
            "transitions": total.transitions.max(1),
            "traces_validated_against_impl": total.executions,
            "evaluations": total.executions,
            "distinct_nontrivial": total.digests_interleaved.len(),
            "rule": m.rule,
            "samples": samples,
            "exhaustive": exhaustive,
            "exhaustive_meaning": "every choice vector within each scenario's stated deviation bound was executed (no cap hit)",
            "bound_completed": if all_unbounded { json!("unbounded") } else { json!(min_bound) },
            "caps_hit": caps,
            "per_scenario": per,
            "engine": "sigsched: stateless DFS over choice vectors; every execution runs the real library code under a token-passing scheduler with kernel-delivered signals",
            "states_meaning": "decision nodes of the choice tree; transitions = scheduled steps executed; traces_validated_against_impl = executions (every explored trace is an execution of the implementation)",
            "selftest": selftest,
            "hooks_cfg": "sighook_verif",
            "repo_head": head,
            "repo_dirty": dirty,
            "known_findings_hit": known_hits,
            "violations_of_other_properties_seen": foreign,
            "fork_based_grid": grid_info,
        },
        "assumptions": m.assumptions,
        "wall_s": start.elapsed().as_secs_f64(),
        "violations": new_violations,
    });
    let _ = std::fs::create_dir_all(crate::explore::evidence_dir());
    let path = format!("{}/{}.json", crate::explore::evidence_dir(), prop);
    if let Err(e) = std::fs::write(&path, serde_json::to_string_pretty(&ev).unwrap()) {
        eprintln!("MACHINERY FAILURE: cannot write evidence {}: {}", path, e);
        return 2;
    }
    exit
}

pub fn replay_file(path: &str) -> i32 {
    let s = match std::fs::read_to_string(path) {
        Ok(s) => s,
        Err(e) => {
            eprintln!("cannot read {}: {}", path, e);
            return 2;
        }
    };
    let v: Value = serde_json::from_str(&s).expect("replay json");
    let prop = v["property"].as_str().unwrap_or("");
    let name = v["scenario"].as_str().unwrap_or("");
    if v["engine"].as_str() == Some("histex") {
        return crate::histex_replay(&v);
    }
    let choices: Vec<u32> = v["choices"].as_array().map(|a| a.iter().filter_map(|x| x.as_u64()).map(|x| x as u32).collect()).unwrap_or_default();
    let it = match find_scenario(prop, name) {
        Some(i) => i,
        None => {
            eprintln!("unknown scenario {} / {}", prop, name);
            return 2;
        }
    };
    // the private-location reduction must run with the set the exploration had learned
    if let Some(a) = v["shared_locations"].as_array() {
        let mut g = crate::sched::SHARED_KEYS.lock().unwrap();
        g.clear();
        for k in a {
            g.push((k[0].as_u64().unwrap_or(0) as u32, k[1].as_u64().unwrap_or(0) as u32));
        }
    }
    let a = replay_once(&*it.run, &choices, 15);
    let b = replay_once(&*it.run, &choices, 15);
    match (a, b) {
        (Ok(a), Ok(b)) => {
            if a != b && a.0.is_some() && b.0.is_some() && a.1 == b.1 {
                // same schedule, same event log, two different oracles fire first (heap addresses reused differently)
                eprintln!("  note: the second replay reports: {}", b.0.clone().unwrap_or_default());
            } else if a != b {
                eprintln!("ENGINE ERROR: replay not deterministic: {:?} vs {:?}", a, b);
                return 2;
            }
            match a.0 {
                Some(m) => {
                    println!("VIOLATION property={} replay={}", prop, path);
                    println!("  {}", m);
                    1
                }
                None => {
                    println!("replay of {} : no violation (log digest {:x})", path, a.1);
                    0
                }
            }
        }
        (a, b) => {
            eprintln!("replay failed: {:?} {:?}", a.err(), b.err());
            2
        }
    }
}
