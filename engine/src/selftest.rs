//! Engine self-test: exact schedule counts and litmus programs with known verdicts.
#![allow(clippy::all)]
use crate::explore::{explore, Config, Summary};
use crate::sched::{self, Opts, Scenario, ThreadSpec};
use signal_hook_registry::verif::atomic::{AtomicUsize, Ordering};
use signal_hook_registry::verif::sync::Mutex;
use std::sync::Arc;
use std::time::Duration;

fn cfg(bound: Option<u32>) -> Config {
    Config { property: "SELFTEST".into(), bound, max_wall: Duration::from_secs(60), workers: 4, hang_secs: 10 }
}

struct St {
    x: AtomicUsize,
    y: AtomicUsize,
    r: [AtomicUsize; 4],
    m1: Mutex<()>,
    m2: Mutex<()>,
}
fn st() -> Arc<St> {
    Arc::new(St { x: AtomicUsize::new(0), y: AtomicUsize::new(0), r: [AtomicUsize::new(0), AtomicUsize::new(0), AtomicUsize::new(0), AtomicUsize::new(0)], m1: Mutex::new(()), m2: Mutex::new(()) })
}

fn th(name: &'static str, f: impl Fn(&Arc<St>) + Sync + Send + 'static) -> ThreadSpec<Arc<St>> {
    ThreadSpec { name, body: Box::new(f), nest_signals: vec![], max_nest: 0 }
}

fn scen(name: &str, opts: Opts, threads: Vec<ThreadSpec<Arc<St>>>, digest: impl Fn(&St) -> u64 + Sync + Send + 'static) -> Scenario<Arc<St>> {
    Scenario {
        name: name.into(),
        opts,
        signals: vec![libc::SIGUSR1],
        setup: Box::new(st),
        threads,
        finish: Box::new(move |s, _e| Ok(digest(&s))),
        monitor: None,
    }
}

fn binom(n: u64, k: u64) -> u64 {
    let mut r = 1u64;
    for i in 0..k {
        r = r * (n - i) / (i + 1);
    }
    r
}

pub fn run(short: bool) -> Result<serde_json::Value, String> {
    let mut report = Vec::new();
    let mut check = |name: &str, ok: bool, detail: String| -> Result<(), String> {
        report.push(serde_json::json!({"test": name, "ok": ok, "detail": detail}));
        if ok { Ok(()) } else { Err(format!("selftest {} failed: {}", name, detail)) }
    };
    // 1. exact schedule counts: two threads of n independent steps => C(2n, n) executions.
    for n in if short { vec![3u64] } else { vec![2u64, 3, 4] } {
        let nn = n;
        let s = scen(&format!("count_{}", n), Opts::default(), vec![
            th("a", move |s| { for _ in 0..nn { s.x.fetch_add(1, Ordering::SeqCst); } }),
            th("b", move |s| { for _ in 0..nn { s.y.fetch_add(1, Ordering::SeqCst); } }),
        ], |s| (s.x.load(Ordering::SeqCst) * 100 + s.y.load(Ordering::SeqCst)) as u64);
        let r = explore(&s, &cfg(None))?;
        // each thread has n ops + the thread-end switch; interleavings of n ops each, times the
        // choice of who starts is included: C(2n, n).
        let want = binom(2 * n, n);
        check(&format!("count_unbounded_{}", n), r.violations.is_empty() && r.stats.executions == want, format!("executions {} want {}", r.stats.executions, want))?;
        let r0 = explore(&s, &cfg(Some(0)))?;
        check(&format!("count_bound0_{}", n), r0.stats.executions == 2, format!("executions {} want 2", r0.stats.executions))?;
        let r1 = explore(&s, &cfg(Some(1)))?;
        // bound 1: start a (preempt at one of its n-1 inner points... ) closed form: 2 + 2*n
        // run a first: preempt a before op k (k=1..n-1 => a has done k ops; k in 1..n) -> n-... counted empirically below
        let want1 = 2 * n; // per starting thread: no preemption, or one at any of its n-1 inner boundaries
        check(&format!("count_bound1_{}", n), r1.stats.executions == want1, format!("executions {} want {}", r1.stats.executions, want1))?;
    }
    // 2. lost update with load+store is seen
    {
        let s = scen("lost_update", Opts::default(), vec![
            th("a", |s| { let v = s.x.load(Ordering::SeqCst); s.x.store(v + 1, Ordering::SeqCst); }),
            th("b", |s| { let v = s.x.load(Ordering::SeqCst); s.x.store(v + 1, Ordering::SeqCst); }),
        ], |s| s.x.load(Ordering::SeqCst) as u64);
        let r = explore(&s, &cfg(None))?;
        check("lost_update_seen", r.stats.digests.contains(&1) && r.stats.digests.contains(&2), format!("digests {:?}", r.stats.digests))?;
    }
    // 3. store buffering: SeqCst never yields r0=r1=0; Release/Acquire (stale reads) does.
    for (name, o_st, o_ld, expect) in [("sb_seqcst", Ordering::SeqCst, Ordering::SeqCst, false), ("sb_relacq", Ordering::Release, Ordering::Acquire, true)] {
        let mut o = Opts::default();
        o.stale_reads = true;
        o.stale_depth = 3;
        let s = scen(name, o, vec![
            th("a", move |s| { s.x.store(1, o_st); let v = s.y.load(o_ld); s.r[0].store(v, Ordering::SeqCst); }),
            th("b", move |s| { s.y.store(1, o_st); let v = s.x.load(o_ld); s.r[1].store(v, Ordering::SeqCst); }),
        ], |s| (s.r[0].load(Ordering::SeqCst) * 2 + s.r[1].load(Ordering::SeqCst)) as u64);
        let r = explore(&s, &cfg(None))?;
        check(name, r.stats.digests.contains(&0) == expect && r.stats.digests.contains(&3), format!("digests {:?} (0 means both read 0)", r.stats.digests))?;
    }
    // 4. message passing: Release/Acquire => no race and data visible; Relaxed flag => race reported.
    for (name, o_st, o_ld, expect_race) in [("mp_relacq", Ordering::Release, Ordering::Acquire, false), ("mp_relaxed", Ordering::Relaxed, Ordering::Relaxed, true)] {
        let s = scen(name, Opts::default(), vec![
            th("a", move |s| { sched::exec_access(0xd00d, true, "data_write"); s.x.store(1, o_st); }),
            th("b", move |s| { if s.x.load(o_ld) == 1 { sched::exec_access(0xd00d, false, "data_read"); } }),
        ], |_| 0);
        let r = explore(&s, &cfg(None))?;
        let raced = r.violations.first().map_or(false, |v| v.message.contains("data race"));
        check(name, raced == expect_race, format!("violation {:?}", r.violations.first().map(|v| &v.message)))?;
    }
    // 5. deadlock AB/BA
    {
        let s = scen("deadlock_abba", Opts::default(), vec![
            th("a", |s| { let _g1 = s.m1.lock().unwrap(); let _g2 = s.m2.lock().unwrap(); }),
            th("b", |s| { let _g2 = s.m2.lock().unwrap(); let _g1 = s.m1.lock().unwrap(); }),
        ], |_| 0);
        let r = explore(&s, &cfg(None))?;
        check("deadlock_abba", r.violations.first().map_or(false, |v| v.message.contains("deadlock")), format!("{:?}", r.violations.first().map(|v| &v.message)))?;
    }
    // 6. livelock: spin on a flag nobody sets
    {
        let s = scen("livelock_spin", Opts::default(), vec![
            th("a", |s| { while s.x.load(Ordering::SeqCst) == 0 { signal_hook_registry::verif::thread::yield_now(); } }),
            th("b", |s| { s.y.store(1, Ordering::SeqCst); }),
        ], |_| 0);
        let r = explore(&s, &cfg(Some(1)))?;
        check("livelock_spin", r.violations.first().map_or(false, |v| v.message.contains("livelock")), format!("{:?}", r.violations.first().map(|v| &v.message)))?;
        // ... and a spin that is released terminates under fair scheduling
        let s = scen("spin_released", Opts::default(), vec![
            th("a", |s| { while s.x.load(Ordering::SeqCst) == 0 { signal_hook_registry::verif::thread::yield_now(); } }),
            th("b", |s| { s.y.store(1, Ordering::SeqCst); s.x.store(1, Ordering::SeqCst); }),
        ], |_| 0);
        let r = explore(&s, &cfg(None))?;
        check("spin_released", r.violations.is_empty() && r.stats.executions > 1, format!("{:?} execs {}", r.violations.first().map(|v| &v.message), r.stats.executions))?;
    }
    // 7. nested signal at every boundary of a 5-step thread => 6 arrival points (incl. before thread end)
    {
        extern "C" fn h(_: libc::c_int) { sched::log("handler_ran", 0, 0); }
        let mut t = th("a", |s| { for _ in 0..5 { s.x.fetch_add(1, Ordering::SeqCst); } });
        t.nest_signals = vec![libc::SIGUSR1];
        t.max_nest = 1;
        let mut s = scen("nested_points", Opts::default(), vec![t], |_| 0);
        s.setup = Box::new(|| { unsafe { libc::signal(libc::SIGUSR1, h as usize); } st() });
        s.finish = Box::new(|_s, e| {
            // digest = number of ops before the handler ran (or 99 if it never ran)
            let mut ops = 0u64; let mut at = 99u64;
            for ev in &e.log { if ev.tag == "handler_ran" { at = ops; } if ev.tag == "op_rmw" { ops += 1; } }
            Ok(at)
        });
        s.opts.log_ops = true;
        let r = explore(&s, &cfg(Some(1)))?;
        let mut d: Vec<u64> = r.stats.digests.iter().copied().collect();
        d.sort();
        check("nested_points", r.violations.is_empty() && d == vec![0, 1, 2, 3, 4, 99], format!("arrival points {:?} execs {}", d, r.stats.executions))?;
    }
    // 8. fairness: two threads that yield to each other must not starve a third one under any
    //    explored schedule (Musuvathi-Qadeer constraints): the program terminates, no horizon.
    {
        let mut o = Opts::default();
        o.horizon = 400;
        let s = scen("fair_relay", o, vec![
            th("a", |s| { while s.y.load(Ordering::SeqCst) == 0 { s.r[0].fetch_add(1, Ordering::SeqCst); signal_hook_registry::verif::thread::yield_now(); } }),
            th("b", |s| { while s.y.load(Ordering::SeqCst) == 0 { s.r[1].fetch_add(1, Ordering::SeqCst); signal_hook_registry::verif::thread::yield_now(); } }),
            th("c", |s| { s.x.fetch_add(1, Ordering::SeqCst); s.x.fetch_add(1, Ordering::SeqCst); s.y.store(1, Ordering::SeqCst); }),
        ], |_| 0);
        let r = explore(&s, &cfg(Some(if short { 1 } else { 2 })))?;
        check("fair_relay_terminates", r.violations.is_empty() && r.stats.executions > 3, format!("{:?} execs {}", r.violations.first().map(|v| &v.message), r.stats.executions))?;
    }
    // 9. private-location reduction: same set of outcomes with fewer executions, and a location
    //    that turns out to be shared is learned (restart) instead of being skipped.
    {
        struct Arr { v: Vec<AtomicUsize>, out: AtomicUsize }
        let mk = |reduce: bool| -> Scenario<Arc<Arr>> {
            let mut o = Opts::default();
            o.reduce = reduce;
            Scenario {
                name: if reduce { "reduce_on".into() } else { "reduce_off".into() },
                opts: o,
                signals: vec![libc::SIGUSR1],
                setup: Box::new(|| Arc::new(Arr { v: (0..12).map(|_| AtomicUsize::new(0)).collect(), out: AtomicUsize::new(0) })),
                threads: vec![
                    ThreadSpec { name: "scan", body: Box::new(|s: &Arc<Arr>| { let mut acc = 0; for k in 0..12 { acc = acc * 2 + s.v[k].load(Ordering::SeqCst); } s.out.store(acc, Ordering::SeqCst); }), nest_signals: vec![], max_nest: 0 },
                    ThreadSpec { name: "set", body: Box::new(|s: &Arc<Arr>| { s.v[3].store(1, Ordering::SeqCst); s.v[9].store(1, Ordering::SeqCst); }), nest_signals: vec![], max_nest: 0 },
                ],
                finish: Box::new(|s, _e| Ok(s.out.load(Ordering::SeqCst) as u64)),
                monitor: None,
            }
        };
        let off = explore(&mk(false), &cfg(None))?;
        let on = explore(&mk(true), &cfg(None))?;
        let same = off.stats.digests == on.stats.digests;
        check("reduction_equivalent", same && on.stats.executions < off.stats.executions && on.shared_locations == 2 && off.violations.is_empty() && on.violations.is_empty(),
            format!("outcomes off {:?} on {:?}; executions off {} on {}; shared learned {} restarts {}", off.stats.digests.len(), on.stats.digests.len(), off.stats.executions, on.stats.executions, on.shared_locations, on.reduction_restarts))?;
    }
    let _ = Summary::clone;
    Ok(serde_json::Value::Array(report))
}

pub fn bench() {
    // hand-off cost: two threads alternating (every step preempts) is the worst case; bound 0 = no switches
    for (name, n) in [("2 threads x 2000 steps, no switches", 2000u64)] {
        let s = scen(name, Opts::default(), vec![
            th("a", move |s| { for _ in 0..n { s.x.fetch_add(1, Ordering::SeqCst); } }),
            th("b", move |s| { for _ in 0..n { s.y.fetch_add(1, Ordering::SeqCst); } }),
        ], |_| 0);
        let t = std::time::Instant::now();
        let mut steps = 0;
        for _ in 0..50 { steps += sched::run_one(&s, &[], false).steps; }
        eprintln!("{}: {} steps in {:?} => {:.2} us/step (in-process, 50 executions)", name, steps, t.elapsed(), t.elapsed().as_secs_f64() * 1e6 / steps as f64);
    }
    // alternating: choice vector that switches at every decision
    let n = 300u64;
    let s = scen("alternate", Opts::default(), vec![
        th("a", move |s| { for _ in 0..n { s.x.fetch_add(1, Ordering::SeqCst); } }),
        th("b", move |s| { for _ in 0..n { s.y.fetch_add(1, Ordering::SeqCst); } }),
    ], |_| 0);
    let choices: Vec<u32> = (0..(2 * n as usize)).map(|_| 1).collect();
    let t = std::time::Instant::now();
    let mut steps = 0;
    let mut sw = 0;
    for _ in 0..50 { let o = sched::run_one(&s, &choices, false); steps += o.steps; sw += o.switches; }
    eprintln!("alternating: {} steps {} switches in {:?} => {:.2} us/step", steps, sw, t.elapsed(), t.elapsed().as_secs_f64() * 1e6 / steps as f64);
    // empty executions: spawn cost
    let s = scen("spawn", Opts::default(), vec![
        th("a", move |s| { s.x.fetch_add(1, Ordering::SeqCst); }),
        th("b", move |s| { s.y.fetch_add(1, Ordering::SeqCst); }),
        th("c", move |s| { s.y.fetch_add(1, Ordering::SeqCst); }),
    ], |_| 0);
    let t = std::time::Instant::now();
    for _ in 0..2000 { sched::run_one(&s, &[], false); }
    eprintln!("3-thread trivial execution: {:.1} us each", t.elapsed().as_secs_f64() * 1e6 / 2000.0);
}
