//! Engine B: bounded-exhaustive enumeration of histories / configuration grids executed on the real
//! library in forked children (a case may abort, exit, stop or permanently change dispositions).
#![allow(clippy::all)]
use serde_json::{json, Value};
use std::time::{Duration, Instant};

#[derive(Clone, Debug, PartialEq)]
pub enum Fate {
    Exited(i32),
    Signaled(i32),
    Stopped(i32),
    TimedOut,
}

impl Fate {
    pub fn describe(&self) -> String {
        match self {
            Fate::Exited(c) => format!("exited({})", c),
            Fate::Signaled(s) => format!("killed-by-signal({})", s),
            Fate::Stopped(s) => format!("stopped({})", s),
            Fate::TimedOut => "timed-out".into(),
        }
    }
}

#[derive(Clone, Debug)]
pub struct Probe {
    pub fate: Fate,
    pub lines: Vec<String>,
    /// What happened after a stopped child was sent SIGCONT (only with `follow_stops`).
    pub after_cont: Option<Fate>,
}

impl Probe {
    pub fn has(&self, l: &str) -> bool {
        self.lines.iter().any(|x| x == l)
    }
    pub fn find(&self, prefix: &str) -> Option<&str> {
        self.lines.iter().find(|x| x.starts_with(prefix)).map(|x| &x[prefix.len()..])
    }
    pub fn all(&self, prefix: &str) -> Vec<&str> {
        self.lines.iter().filter(|x| x.starts_with(prefix)).map(|x| &x[prefix.len()..]).collect()
    }
}

pub struct Emit {
    fd: i32,
}

impl Emit {
    pub fn line(&mut self, s: &str) {
        let mut v = s.replace('\n', " ");
        v.push('\n');
        let b = v.as_bytes();
        let mut off = 0;
        while off < b.len() {
            let r = unsafe { libc::write(self.fd, b[off..].as_ptr() as *const _, b.len() - off) };
            if r <= 0 {
                break;
            }
            off += r as usize;
        }
    }
    pub fn fd(&self) -> i32 {
        self.fd
    }
}

struct Running {
    idx: usize,
    pid: i32,
    fd: i32,
    buf: Vec<u8>,
    start: Instant,
    eof: bool,
    fate: Option<Fate>,
    stopped: Option<i32>,
}

/// Run `n` cells, each in its own forked child (up to `conc` at a time). The child runs
/// `f(i, &mut emit)` and then `_exit(0)`; an uncaught panic exits with 101.
pub fn run_cells<F: Fn(usize, &mut Emit)>(n: usize, conc: usize, timeout: Duration, f: F) -> Vec<Probe> {
    let mut out: Vec<Option<Probe>> = (0..n).map(|_| None).collect();
    let mut running: Vec<Running> = Vec::new();
    let mut next = 0usize;
    use std::io::Write;
    std::io::stdout().flush().ok();
    std::io::stderr().flush().ok();
    while next < n || !running.is_empty() {
        while next < n && running.len() < conc {
            let mut fds = [0i32; 2];
            unsafe {
                assert_eq!(0, libc::pipe(fds.as_mut_ptr()));
            }
            let pid = unsafe { libc::fork() };
            assert!(pid >= 0, "fork failed");
            if pid == 0 {
                unsafe {
                    libc::close(fds[0]);
                }
                // do not keep the read ends of siblings open
                for r in &running {
                    unsafe {
                        libc::close(r.fd);
                    }
                }
                let mut e = Emit { fd: fds[1] };
                std::panic::set_hook(Box::new(|_| {}));
                let r = std::panic::catch_unwind(std::panic::AssertUnwindSafe(|| f(next, &mut e)));
                unsafe {
                    libc::_exit(if r.is_ok() { 0 } else { 101 });
                }
            }
            unsafe {
                libc::close(fds[1]);
                let fl = libc::fcntl(fds[0], libc::F_GETFL);
                libc::fcntl(fds[0], libc::F_SETFL, fl | libc::O_NONBLOCK);
            }
            running.push(Running { idx: next, pid, fd: fds[0], buf: Vec::new(), start: Instant::now(), eof: false, fate: None, stopped: None });
            next += 1;
        }
        // poll the pipes
        let mut pfds: Vec<libc::pollfd> = running.iter().map(|r| libc::pollfd { fd: if r.eof { -1 } else { r.fd }, events: libc::POLLIN, revents: 0 }).collect();
        unsafe {
            libc::poll(pfds.as_mut_ptr(), pfds.len() as libc::nfds_t, 2);
        }
        for (k, r) in running.iter_mut().enumerate() {
            if !r.eof && pfds[k].revents != 0 {
                let mut b = [0u8; 4096];
                loop {
                    let n = unsafe { libc::read(r.fd, b.as_mut_ptr() as *mut _, b.len()) };
                    if n > 0 {
                        r.buf.extend_from_slice(&b[..n as usize]);
                    } else if n == 0 {
                        r.eof = true;
                        break;
                    } else {
                        break;
                    }
                }
            }
            if r.fate.is_none() {
                let mut st = 0i32;
                let w = unsafe { libc::waitpid(r.pid, &mut st, libc::WNOHANG | libc::WUNTRACED) };
                if w == r.pid {
                    if libc::WIFSTOPPED(st) {
                        if r.stopped.is_none() {
                            // remember the stop, continue the child and see what it does next
                            r.stopped = Some(libc::WSTOPSIG(st));
                            unsafe {
                                libc::kill(r.pid, libc::SIGCONT);
                            }
                        } else {
                            r.fate = Some(Fate::Stopped(libc::WSTOPSIG(st)));
                            unsafe {
                                libc::kill(r.pid, libc::SIGKILL);
                                libc::waitpid(r.pid, &mut st, 0);
                            }
                        }
                    } else if libc::WIFEXITED(st) {
                        r.fate = Some(Fate::Exited(libc::WEXITSTATUS(st)));
                    } else {
                        r.fate = Some(Fate::Signaled(libc::WTERMSIG(st)));
                    }
                } else if r.start.elapsed() > timeout {
                    unsafe {
                        libc::kill(r.pid, libc::SIGKILL);
                        libc::waitpid(r.pid, &mut st, 0);
                    }
                    r.fate = Some(Fate::TimedOut);
                }
            }
        }
        let mut i = 0;
        while i < running.len() {
            let done = running[i].fate.is_some() && (running[i].eof || running[i].start.elapsed() > timeout + Duration::from_millis(200) || matches!(running[i].fate, Some(Fate::TimedOut) | Some(Fate::Stopped(_)) | Some(Fate::Signaled(_))));
            if done {
                let mut r = running.swap_remove(i);
                // drain what is left
                let mut b = [0u8; 4096];
                loop {
                    let n = unsafe { libc::read(r.fd, b.as_mut_ptr() as *mut _, b.len()) };
                    if n > 0 {
                        r.buf.extend_from_slice(&b[..n as usize]);
                    } else {
                        break;
                    }
                }
                unsafe {
                    libc::close(r.fd);
                }
                let text = String::from_utf8_lossy(&r.buf).to_string();
                let fin = r.fate.unwrap();
                let (fate, after) = match r.stopped {
                    Some(sg) => (Fate::Stopped(sg), Some(fin)),
                    None => (fin, None),
                };
                out[r.idx] = Some(Probe { fate, lines: text.lines().map(|s| s.to_string()).collect(), after_cont: after });
            } else {
                i += 1;
            }
        }
    }
    out.into_iter().map(|x| x.unwrap()).collect()
}

pub struct BViolation {
    pub message: String,
    pub case: Value,
}

pub struct BResult {
    pub states: u64,
    pub transitions: u64,
    pub evaluations: u64,
    pub distinct: u64,
    pub samples: Vec<Value>,
    pub per_class: Value,
    pub violations: Vec<BViolation>,
    pub exhaustive: bool,
    pub caps: Vec<Value>,
    pub rule: String,
    pub assumptions: Vec<String>,
}

pub fn write_replay_b(prop: &str, case: &Value, message: &str) -> String {
    let dir = crate::explore::replay_dir();
    let _ = std::fs::create_dir_all(&dir);
    let s = serde_json::to_string(case).unwrap_or_default();
    let mut h: u64 = 0xcbf29ce484222325;
    for b in s.bytes() {
        h ^= b as u64;
        h = h.wrapping_mul(0x100000001b3);
    }
    let path = format!("{}/{}-histex-{:016x}.json", dir, prop, h);
    let v = json!({"property": prop, "engine": "histex", "case": case, "message": message});
    let _ = std::fs::write(&path, serde_json::to_string_pretty(&v).unwrap());
    path
}

/// Common tail of an engine-B check: classify, print, write evidence. Returns the exit code.
pub fn finish_check(prop: &str, tier: &str, start: Instant, r: BResult) -> i32 {
    let seed: i64 = std::env::var("VERIF_SEED").ok().and_then(|s| s.parse().ok()).unwrap_or(0);
    let known = crate::props::known_findings();
    let mut exit = 0;
    let mut new_v = 0;
    let mut known_hits: Vec<String> = Vec::new();
    let mut printed = 0;
    for v in &r.violations {
        let k = known.iter().find(|(id, text)| id == prop && !text.is_empty() && v.message.contains(text.as_str()));
        match k {
            Some((_, text)) => {
                if !known_hits.contains(text) {
                    println!("KNOWN-FINDING: property={} {}", prop, text);
                    known_hits.push(text.clone());
                }
            }
            None => {
                new_v += 1;
                exit = 1;
                if printed < 10 {
                    let path = write_replay_b(prop, &v.case, &v.message);
                    println!("VIOLATION property={} replay={}", prop, path);
                    eprintln!("  {}", v.message);
                    printed += 1;
                }
            }
        }
    }
    if !r.violations.is_empty() {
        let all: Vec<String> = r.violations.iter().map(|v| v.message.clone()).collect();
        let _ = std::fs::write(format!("{}/violations_{}.txt", std::env::var("VERIF_EVIDENCE_DIR").unwrap_or_else(|_| "/verif/target".to_string()), prop), all.join("\n"));
    }
    let (head, dirty) = crate::props::repo_head_pub();
    let ev = json!({
        "property_id": prop,
        "tier": tier,
        "seed": seed,
        "level": "model_checking",
        "coverage": {
            "states": r.states.max(1),
            "transitions": r.transitions.max(1),
            "traces_validated_against_impl": r.evaluations,
            "evaluations": r.evaluations,
            "distinct_nontrivial": r.distinct,
            "rule": r.rule,
            "samples": r.samples,
            "exhaustive": r.exhaustive,
            "caps_hit": r.caps,
            "per_class": r.per_class,
            "engine": "histex: explicit enumeration of histories / grid cells, each executed on the real library (forked children where a case may kill or permanently alter the process), judged against a reference model or the kernel itself",
            "states_meaning": "distinct (reference-model state, observed implementation state) pairs or grid cells; transitions = library operations executed; traces_validated_against_impl = histories / cells executed on the implementation",
            "hooks_cfg": "sighook_verif (hooks compiled in but no scheduler installed: wrappers behave as std)",
            "repo_head": head,
            "repo_dirty": dirty,
            "known_findings_hit": known_hits,
        },
        "assumptions": r.assumptions,
        "wall_s": start.elapsed().as_secs_f64(),
        "violations": new_v,
    });
    let _ = std::fs::create_dir_all(crate::explore::evidence_dir());
    let path = format!("{}/{}.json", crate::explore::evidence_dir(), prop);
    if let Err(e) = std::fs::write(&path, serde_json::to_string_pretty(&ev).unwrap()) {
        eprintln!("MACHINERY FAILURE: cannot write evidence {}: {}", path, e);
        return 2;
    }
    eprintln!("[{}] cells/histories={} states={} operations={} distinct={} violations={} ({} known) {:.1}s", prop, r.evaluations, r.states, r.transitions, r.distinct, new_v, known_hits.len(), start.elapsed().as_secs_f64());
    exit
}

// ---------------------------------------------------------------------------------------------
// A pass-through hook table that only counts named scheduling points (used inside probe children).

pub mod counters {
    use signal_hook_registry::verif as shim;
    use std::sync::atomic::{AtomicU64, Ordering};
    pub static WAKES: AtomicU64 = AtomicU64::new(0);
    pub static WAKE_FD: AtomicU64 = AtomicU64::new(0);
    pub static SIGACTIONS: AtomicU64 = AtomicU64::new(0);
    fn pre(_: &shim::Op) -> u32 {
        0
    }
    fn post(_: &shim::Op, real: u64, _: bool) -> u64 {
        real
    }
    fn loc_drop(_: usize, _: u8) {}
    fn m1(_: usize, _: &'static str, _: u32) {}
    fn m2(_: usize, _: bool) {}
    fn m3(_: usize) {}
    fn y(k: u8) {
        if k == shim::YIELD_THREAD {
            std::thread::yield_now()
        } else {
            std::hint::spin_loop()
        }
    }
    fn sp(tag: &'static str, a: u64) {
        match tag {
            "wake" => {
                WAKES.fetch_add(1, Ordering::SeqCst);
                WAKE_FD.store(a, Ordering::SeqCst);
            }
            "sigaction_install" => {
                SIGACTIONS.fetch_add(1, Ordering::SeqCst);
            }
            _ => {}
        }
    }
    fn ev(_: &'static str, _: u64, _: u64) {}
    fn br(_: i32) {}
    static TABLE: shim::Hooks = shim::Hooks { pre, post, loc_drop, mutex_pre_lock: m1, mutex_post_lock: m2, mutex_pre_unlock: m3, yield_hint: y, sched_point: sp, event: ev, blocking_read: br };
    pub fn install() {
        shim::install(&TABLE);
    }
    pub fn wakes() -> u64 {
        WAKES.load(Ordering::SeqCst)
    }
}
