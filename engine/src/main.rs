#![allow(clippy::all)]
mod alloc;
mod explore;
mod sched;
mod selftest;

#[global_allocator]
static GLOBAL: alloc::CheckAlloc = alloc::CheckAlloc;

fn main() {
    let args: Vec<String> = std::env::args().collect();
    match args.get(1).map(|s| s.as_str()) {
        Some("selftest") => match selftest::run(false) {
            Ok(v) => {
                println!("{}", serde_json::to_string_pretty(&v).unwrap());
                println!("selftest OK");
            }
            Err(e) => {
                eprintln!("{}", e);
                std::process::exit(2);
            }
        },
        _ => {
            eprintln!("usage: sigmc selftest | check <ID> --tier quick|thorough | replay <file>");
            std::process::exit(2);
        }
    }
}
