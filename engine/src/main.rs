#![allow(clippy::all)]
mod alloc;
mod explore;
mod histex;
mod propsb;
mod props;
mod sched;
mod selftest;

#[global_allocator]
static GLOBAL: alloc::CheckAlloc = alloc::CheckAlloc;

pub fn histex_replay(_v: &serde_json::Value) -> i32 {
    eprintln!("histex replay not available");
    2
}

fn main() {
    let args: Vec<String> = std::env::args().collect();
    let tier = {
        let mut t = std::env::var("VERIF_TIER").unwrap_or_else(|_| "quick".into());
        if let Some(i) = args.iter().position(|a| a == "--tier") {
            if let Some(v) = args.get(i + 1) {
                t = v.clone();
            }
        }
        if t == "thorough" { props::Tier::Thorough } else { props::Tier::Quick }
    };
    match args.get(1).map(|s| s.as_str()) {
        Some("selftest") => match selftest::run(false) {
            Ok(v) => {
                println!("{}", serde_json::to_string_pretty(&v).unwrap());
                println!("selftest OK");
            }
            Err(e) => {
                eprintln!("{}", e);
                std::process::exit(2);
            }
        },
        Some("bench") => selftest::bench(),
        Some("check") => {
            let prop = args.get(2).expect("property id").clone();
            if props::scenarios(&prop, tier).is_some() {
                let st = match selftest::run(true) {
                    Ok(v) => serde_json::json!({"ran": "short", "tests": v.as_array().map(|a| a.len()).unwrap_or(0), "all_ok": true}),
                    Err(e) => {
                        eprintln!("MACHINERY FAILURE: {}", e);
                        std::process::exit(2);
                    }
                };
                std::process::exit(props::check_a(&prop, tier, st));
            }
            let t0 = std::time::Instant::now();
            if let Some(r) = propsb::run(&prop, tier) {
                std::process::exit(histex::finish_check(&prop, if tier == props::Tier::Quick { "quick" } else { "thorough" }, t0, r));
            }
            eprintln!("unknown property {}", prop);
            std::process::exit(2);
        }
        Some("replay") => {
            std::process::exit(props::replay_file(args.get(2).expect("replay file")));
        }
        _ => {
            eprintln!("usage: sigmc selftest | check <ID> [--tier quick|thorough] | replay <file>");
            std::process::exit(2);
        }
    }
}
