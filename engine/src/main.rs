#![allow(clippy::all)]
mod alloc;
mod explore;
mod histex;
mod propsb;
mod props;
mod sched;
mod selftest;

#[global_allocator]
static GLOBAL: alloc::CheckAlloc = alloc::CheckAlloc;

/// Replay of an engine-B case: the property's enumeration is run again (it takes seconds) and the
/// verdict for exactly that case is reported.
pub fn histex_replay(v: &serde_json::Value) -> i32 {
    let prop = v["property"].as_str().unwrap_or("").to_string();
    let case = v["case"].clone();
    for tier in [props::Tier::Quick, props::Tier::Thorough] {
        let r = match propsb::run(&prop, tier).or_else(|| propsb::grid_for_a(&prop, tier)) {
            Some(r) => r,
            None => {
                eprintln!("unknown engine-B property {}", prop);
                return 2;
            }
        };
        // the replay case may name a subset of the keys of the recorded case
        let matches = |full: &serde_json::Value| -> bool {
            match (case.as_object(), full.as_object()) {
                (Some(want), Some(have)) => want.iter().all(|(k, v)| have.get(k) == Some(v)),
                _ => *full == case,
            }
        };
        if let Some(hit) = r.violations.iter().find(|x| matches(&x.case)) {
            println!("VIOLATION property={} replay=(case) {}", prop, case);
            println!("  {}", hit.message);
            return 1;
        }
    }
    println!("replay of case {} : no violation", case);
    0
}

fn main() {
    let args: Vec<String> = std::env::args().collect();
    let tier = {
        let mut t = std::env::var("VERIF_TIER").unwrap_or_else(|_| "quick".into());
        if let Some(i) = args.iter().position(|a| a == "--tier") {
            if let Some(v) = args.get(i + 1) {
                t = v.clone();
            }
        }
        if t == "thorough" { props::Tier::Thorough } else { props::Tier::Quick }
    };
    match args.get(1).map(|s| s.as_str()) {
        Some("selftest") => match selftest::run(false) {
            Ok(v) => {
                println!("{}", serde_json::to_string_pretty(&v).unwrap());
                println!("selftest OK");
            }
            Err(e) => {
                eprintln!("{}", e);
                std::process::exit(2);
            }
        },
        Some("bench") => selftest::bench(),
        Some("check") => {
            let prop = args.get(2).expect("property id").clone();
            if props::scenarios(&prop, tier).is_some() {
                let st = match selftest::run(true) {
                    Ok(v) => serde_json::json!({"ran": "short", "tests": v.as_array().map(|a| a.len()).unwrap_or(0), "all_ok": true}),
                    Err(e) => {
                        eprintln!("MACHINERY FAILURE: {}", e);
                        std::process::exit(2);
                    }
                };
                std::process::exit(props::check_a(&prop, tier, st));
            }
            let t0 = std::time::Instant::now();
            if let Some(r) = propsb::run(&prop, tier) {
                std::process::exit(histex::finish_check(&prop, if tier == props::Tier::Quick { "quick" } else { "thorough" }, t0, r));
            }
            eprintln!("unknown property {}", prop);
            std::process::exit(2);
        }
        Some("replay") => {
            std::process::exit(props::replay_file(args.get(2).expect("replay file")));
        }
        _ => {
            eprintln!("usage: sigmc selftest | check <ID> [--tier quick|thorough] | replay <file>");
            std::process::exit(2);
        }
    }
}
