//! C16: default-action emulation matches the kernel. Complete grid signal x calling context; for
//! every cell a native child (SIG_DFL + raise) and an emulated child, classified by waitpid(WUNTRACED)
//! inside a constructed non-orphaned process group.
#![allow(clippy::all)]
use super::*;
use crate::histex::{run_cells, BResult, BViolation, Emit, Fate, Probe};
use serde_json::json;
use signal_hook_registry as reg;
use std::time::Duration;

fn no_core() {
    unsafe {
        let rl = libc::rlimit { rlim_cur: 0, rlim_max: 0 };
        libc::setrlimit(libc::RLIMIT_CORE, &rl);
    }
}

fn unblock(sig: i32) {
    unsafe {
        let mut set: libc::sigset_t = std::mem::zeroed();
        libc::sigemptyset(&mut set);
        libc::sigaddset(&mut set, sig);
        libc::sigprocmask(libc::SIG_UNBLOCK, &set, std::ptr::null_mut());
    }
}

fn native(sig: i32, e: &mut Emit) {
    no_core();
    unsafe {
        let mut sa: libc::sigaction = std::mem::zeroed();
        sa.sa_sigaction = libc::SIG_DFL;
        libc::sigaction(sig, &sa, std::ptr::null_mut());
    }
    unblock(sig);
    let r = unsafe { libc::raise(sig) };
    e.line(&format!("raise={}", r));
    e.line("continued");
}

static EMU_RESULT: std::sync::atomic::AtomicI32 = std::sync::atomic::AtomicI32::new(-999);

fn emulated(sig: i32, ctx: usize, e: &mut Emit) {
    no_core();
    match ctx {
        0 => {
            let r = signal_hook::low_level::emulate_default_handler(sig);
            e.line(&format!("ret={}", match r { Ok(()) => "ok".to_string(), Err(er) => format!("err({})", er.raw_os_error().unwrap_or(-1)) }));
        }
        8 => {
            // called on a second thread of a process whose main thread is alive and does not block anything
            let h = std::thread::spawn(move || {
                let r = signal_hook::low_level::emulate_default_handler(sig);
                match r { Ok(()) => "ok".to_string(), Err(er) => format!("err({})", er.raw_os_error().unwrap_or(-1)) }
            });
            let r = h.join().unwrap_or_else(|_| "panic".to_string());
            e.line(&format!("ret={}", r));
        }
        7 => {
            // another signal is blocked and pending (default disposition: it would terminate the process if
            // it were let through): the outcome must still be that of `sig`
            let other = if sig == libc::SIGUSR2 { libc::SIGUSR1 } else { libc::SIGUSR2 };
            unsafe {
                let mut sa: libc::sigaction = std::mem::zeroed();
                sa.sa_sigaction = libc::SIG_DFL;
                libc::sigaction(other, &sa, std::ptr::null_mut());
                let mut set: libc::sigset_t = std::mem::zeroed();
                libc::sigemptyset(&mut set);
                libc::sigaddset(&mut set, other);
                libc::sigprocmask(libc::SIG_BLOCK, &set, std::ptr::null_mut());
                libc::raise(other);
            }
            let r = signal_hook::low_level::emulate_default_handler(sig);
            e.line(&format!("ret={}", match r { Ok(()) => "ok".to_string(), Err(er) => format!("err({})", er.raw_os_error().unwrap_or(-1)) }));
        }
        9 => {
            // the signal is blocked, one instance of it is already pending (a second arrival while the first
            // is being handled) and the application's own handler is installed: the emulation must give the
            // signal its default action - the handler must not get the pending instance first
            extern "C" fn bail(_: libc::c_int) {
                unsafe { libc::_exit(42) }
            }
            unsafe {
                let mut sa: libc::sigaction = std::mem::zeroed();
                sa.sa_sigaction = bail as usize;
                libc::sigaction(sig, &sa, std::ptr::null_mut());
                let mut set: libc::sigset_t = std::mem::zeroed();
                libc::sigemptyset(&mut set);
                libc::sigaddset(&mut set, sig);
                libc::sigprocmask(libc::SIG_BLOCK, &set, std::ptr::null_mut());
                libc::raise(sig);
            }
            let r = signal_hook::low_level::emulate_default_handler(sig);
            e.line(&format!("ret={}", match r { Ok(()) => "ok".to_string(), Err(er) => format!("err({})", er.raw_os_error().unwrap_or(-1)) }));
        }
        5 | 6 => {
            // "does nothing else": the signal is blocked with one instance pending, under the application's
            // own handler (5) or the default disposition (6); afterwards the mask, the pending set and the
            // disposition must be what they were and the handler must not have run
            extern "C" fn mark(_: libc::c_int) {
                MARK.store(1, std::sync::atomic::Ordering::SeqCst);
            }
            static MARK: std::sync::atomic::AtomicI32 = std::sync::atomic::AtomicI32::new(0);
            unsafe {
                let mut sa: libc::sigaction = std::mem::zeroed();
                sa.sa_sigaction = if ctx == 5 { mark as usize } else { libc::SIG_DFL };
                libc::sigaction(sig, &sa, std::ptr::null_mut());
                let mut set: libc::sigset_t = std::mem::zeroed();
                libc::sigemptyset(&mut set);
                libc::sigaddset(&mut set, sig);
                libc::sigprocmask(libc::SIG_BLOCK, &set, std::ptr::null_mut());
                libc::raise(sig);
            }
            let before = unsafe {
                let mut sa: libc::sigaction = std::mem::zeroed();
                libc::sigaction(sig, std::ptr::null(), &mut sa);
                (sa.sa_sigaction, sa.sa_flags)
            };
            let r = signal_hook::low_level::emulate_default_handler(sig);
            let (masked, pending, after) = unsafe {
                let mut cur: libc::sigset_t = std::mem::zeroed();
                libc::sigprocmask(libc::SIG_BLOCK, std::ptr::null(), &mut cur);
                let mut pend: libc::sigset_t = std::mem::zeroed();
                libc::sigpending(&mut pend);
                let mut sa: libc::sigaction = std::mem::zeroed();
                libc::sigaction(sig, std::ptr::null(), &mut sa);
                (libc::sigismember(&cur, sig) == 1, libc::sigismember(&pend, sig) == 1, (sa.sa_sigaction, sa.sa_flags))
            };
            let touched = [(!masked, "signal-mask"), (!pending, "pending-instance-consumed"), (before != after, "disposition"), (MARK.load(std::sync::atomic::Ordering::SeqCst) != 0, "handler-ran")].iter().filter(|x| x.0).map(|x| x.1).collect::<Vec<_>>().join("+");
            e.line(&format!("ret={}{}", match r { Ok(()) => "ok".to_string(), Err(er) => format!("err({})", er.raw_os_error().unwrap_or(-1)) }, if touched.is_empty() { String::new() } else { format!(" CHANGED:{}", touched) }));
        }
        3 | 4 => {
            // through flag::register_conditional_default with the condition true (3) / false (4)
            let cond = std::sync::Arc::new(std::sync::atomic::AtomicBool::new(ctx == 3));
            let disp = |s: i32| unsafe {
                let mut sa: libc::sigaction = std::mem::zeroed();
                libc::sigaction(s, std::ptr::null(), &mut sa);
                (sa.sa_sigaction, sa.sa_flags)
            };
            let before = disp(sig);
            let outcome = std::panic::catch_unwind(|| signal_hook::flag::register_conditional_default(sig, cond));
            if !matches!(outcome, Ok(Ok(_))) && disp(sig) != before {
                // refused, yet the signal's disposition is not what it was
                let er = match &outcome { Ok(Err(er)) => er.raw_os_error().unwrap_or(-1), _ => -2 };
                e.line(&format!("ret=err({}) CHANGED:disposition", er));
                e.line("continued");
                return;
            }
            match outcome {
                Ok(Ok(_)) => {
                    unsafe {
                        libc::raise(sig);
                    }
                    e.line("ret=ok");
                }
                Ok(Err(er)) => e.line(&format!("ret=err({})", er.raw_os_error().unwrap_or(-1))),
                Err(_) => e.line("ret=refused-panic"),
            }
        }
        _ => {
            let unb = ctx == 2;
            let reg_r = unsafe {
                reg::register_unchecked(sig, move |_| {
                    if unb {
                        unblock(sig);
                    }
                    let r = signal_hook::low_level::emulate_default_handler(sig);
                    EMU_RESULT.store(match r { Ok(()) => 0, Err(er) => er.raw_os_error().unwrap_or(-1) }, std::sync::atomic::Ordering::SeqCst);
                })
            };
            if reg_r.is_err() {
                e.line("ret=unregistrable");
            } else {
                unsafe {
                    libc::raise(sig);
                }
                let v = EMU_RESULT.load(std::sync::atomic::Ordering::SeqCst);
                e.line(&format!("ret={}", if v == 0 { "ok".to_string() } else if v == -999 { "not-run".to_string() } else { format!("err({})", v) }));
            }
        }
    }
    e.line("continued");
}

fn classify(p: &Probe) -> String {
    match &p.fate {
        Fate::Exited(0) if p.has("continued") => "continues".into(),
        Fate::Exited(c) => format!("exited({})", c),
        Fate::Signaled(s) => format!("terminated-by({})", s),
        Fate::Stopped(_) => format!("stopped, after SIGCONT: {}", match &p.after_cont { Some(Fate::Exited(0)) if p.has("continued") => "continues".to_string(), Some(f) => f.describe(), None => "?".to_string() }),
        Fate::TimedOut => "timed-out".into(),
    }
}

fn platform_name(sig: i32) -> Option<String> {
    extern "C" {
        fn sigabbrev_np(sig: libc::c_int) -> *const libc::c_char;
    }
    let p = unsafe { sigabbrev_np(sig) };
    if p.is_null() {
        None
    } else {
        Some(format!("SIG{}", unsafe { std::ffi::CStr::from_ptr(p) }.to_string_lossy()))
    }
}

pub fn run(_tier: Tier) -> BResult {
    let mut sigs: Vec<i32> = (1..=64).collect();
    sigs.extend([0, -1, 65, 1000, 128, 255, 256, i32::MAX, i32::MIN]);
    // out-of-range numbers that are congruent to a known signal modulo a power of two (a table keyed by a
    // narrower integer type, or an index computed with a mask, would find an entry for them)
    for k in [256i32, 512, 1 << 16, 1 << 24, -256, -(1 << 16), i32::MIN] {
        for s in [libc::SIGTERM, libc::SIGTSTP, libc::SIGWINCH, libc::SIGKILL, libc::SIGSTOP, libc::SIGCHLD] {
            sigs.push(k.wrapping_add(s));
        }
    }
    // cells: (sig, ctx, emulated?)  ctx 0 normal, 1 inside own action (blocked), 2 inside after unblocking
    let mut cells: Vec<(i32, usize, bool)> = Vec::new();
    for &s in &sigs {
        cells.push((s, 0, false));
        for c in 0..5 {
            if c > 0 && (s == libc::SIGKILL || s == libc::SIGSTOP || s < 1 || s > 64) {
                continue;
            }
            if c >= 3 && forbidden(s) {
                continue;
            }
            cells.push((s, c, true));
        }
        if s >= 1 && s <= 64 && s != libc::SIGKILL && s != libc::SIGSTOP && signal_hook::low_level::signal_name(s).is_some() {
            cells.push((s, 7, true));
            cells.push((s, 8, true));
            cells.push((s, 9, true));
        }
        // blocked with a pending instance: only where the library must do nothing at all
        if s >= 1 && s <= 64 && s != 32 && s != 33 && signal_hook::low_level::signal_name(s).is_none() {
            cells.push((s, 5, true));
            cells.push((s, 6, true));
        }
    }
    // The probes run inside a process group that is not orphaned: an intermediate child makes a
    // new group while its parent (this checker) stays in the old group of the same session.
    let cells2 = cells.clone();
    let outer = run_cells(1, 1, Duration::from_secs(600), move |_, e| {
        unsafe {
            libc::setpgid(0, 0);
        }
        let cells3 = cells2.clone();
        let inner = run_cells(cells2.len(), 8, Duration::from_secs(20), move |i, e2| {
            let (s, c, emu) = cells3[i];
            if emu {
                emulated(s, c, e2)
            } else {
                if s >= 1 && s <= 64 && s != 32 && s != 33 {
                    native(s, e2)
                } else {
                    e2.line("skipped");
                }
            }
        });
        for (i, p) in inner.iter().enumerate() {
            e.line(&format!("{}|{}|{}", i, classify(p), p.find("ret=").unwrap_or("-")));
        }
        e.line("outer-done");
    });
    let mut violations = Vec::new();
    let mut samples = Vec::new();
    let mut classes: std::collections::BTreeMap<String, u64> = Default::default();
    let mut distinct = std::collections::HashSet::new();
    if !outer[0].has("outer-done") {
        violations.push(BViolation { message: format!("engine: probe group runner failed: {:?}", outer[0].fate), case: json!({}) });
    }
    let mut res: Vec<(String, String)> = vec![(String::new(), String::new()); cells.len()];
    for l in &outer[0].lines {
        let parts: Vec<&str> = l.split('|').collect();
        if parts.len() == 3 {
            if let Ok(i) = parts[0].parse::<usize>() {
                res[i] = (parts[1].to_string(), parts[2].to_string());
            }
        }
    }
    let native_of = |s: i32| -> Option<String> { cells.iter().position(|c| c.0 == s && !c.2).map(|i| res[i].0.clone()) };
    let ctxn = ["normal context", "inside the signal's own action (signal blocked)", "inside its own action after unblocking it", "a delivery with register_conditional_default armed (condition true)", "a delivery with register_conditional_default not armed (condition false)", "normal context, signal blocked with one instance pending, application handler installed", "normal context, signal blocked with one instance pending, default disposition", "normal context while another signal (SIGUSR2 / SIGUSR1) is blocked and pending with its default disposition", "a second thread of a multi-threaded process (the main thread is alive and blocks nothing)", "normal context, signal blocked with one instance already pending, an application handler installed that would end the process differently"];
    for (i, &(s, c, emu)) in cells.iter().enumerate() {
        if !emu {
            continue;
        }
        let known = signal_hook::low_level::signal_name(s);
        let (class, ret) = (&res[i].0, &res[i].1);
        let case = json!({"signal": s, "context": ctxn[c], "emulated_outcome": class, "emulate_returned": ret, "native_outcome": native_of(s)});
        *classes.entry(format!("{}:{}", if known.is_some() { "known" } else { "unknown" }, class)).or_insert(0) += 1;
        distinct.insert((class.clone(), ret.clone(), known.is_some()));
        if samples.len() < 4 && i % 37 == 0 {
            samples.push(case.clone());
        }
        if let (Some(name), true) = (known, s < 1 || s > 64) {
            violations.push(BViolation { message: format!("C16: signal_name({}) = {} although {} is not a signal number of this platform; emulate_default_handler returned {} and the process {}", s, name, s, ret, class), case: case.clone() });
            continue;
        }
        match known {
            Some(_) if c == 4 => {
                if class != "continues" {
                    violations.push(BViolation { message: format!("C16: register_conditional_default({}) with a false condition: the process {} on delivery (must simply continue)", s, class), case: case.clone() });
                }
            }
            Some(name) => {
                let nat = native_of(s).unwrap_or_default();
                if *class != nat {
                    violations.push(BViolation { message: format!("C16: emulate_default_handler({} = {}) from {}: process {} but the kernel's default disposition makes it {}", name, s, ctxn[c], class, nat), case: case.clone() });
                }
                if platform_name(s).as_deref() != Some(name) && !(name == "SIGIO" && platform_name(s).as_deref() == Some("SIGPOLL")) && !(name == "SIGABRT" && platform_name(s).as_deref() == Some("SIGIOT")) {
                    violations.push(BViolation { message: format!("C16: signal_name({}) = {} but the platform calls it {:?}", s, name, platform_name(s)), case: case.clone() });
                }
            }
            None => {
                if c >= 3 && ret == "ok" {
                    violations.push(BViolation { message: format!("C16: register_conditional_default({}) accepted a signal without a known default", s), case: case.clone() });
                }
                if ret.contains("CHANGED") {
                    violations.push(BViolation { message: format!("C16: emulate_default_handler({}) for a signal without a known name, {}: returned {} - it must return an error and do nothing else", s, ctxn[c], ret), case: case.clone() });
                } else if class != "continues" || !ret.starts_with("err") {
                    if !(ret == "unregistrable") {
                        violations.push(BViolation { message: format!("C16: emulate_default_handler({}) for a signal without a known name: returned {} and the process {}", s, ret, class), case: case.clone() });
                    }
                }
            }
        }
    }
    BResult {
        states: cells.len() as u64,
        transitions: cells.len() as u64,
        evaluations: cells.len() as u64,
        distinct: distinct.len() as u64,
        samples,
        per_class: json!(classes),
        violations,
        exhaustive: true,
        caps: vec![],
        rule: "complete grid: signal 1..64 + out-of-range numbers {0,-1,65,128,255,256,1000,MIN,MAX} + {256,512,2^16,2^24,-256,-2^16,MIN} + {TERM,TSTP,WINCH,KILL,STOP,CHLD} x context {normal, inside own action blocked, inside own action unblocked, delivery under register_conditional_default with the condition true / false; for known signals also: while another, terminating signal is blocked and pending, from a second thread of a multi-threaded process, and blocked with an instance already pending under an application handler (the handler must not get it); for signals without a known name also: blocked with one instance pending under an application handler / the default disposition, comparing mask, pending set, disposition and handler runs before and after}; each cell = an emulated child compared with a native child (SIG_DFL, unblock, raise) classified by waitpid(WUNTRACED) in a constructed non-orphaned process group; distinct = distinct (outcome class, return value, known?) tuples".into(),
        assumptions: vec!["the kernel's default disposition is observed, not tabulated".into(), "core dumps disabled in probes (RLIMIT_CORE=0)".into(), "KILL/STOP only from normal context; signals 32/33 (libc-internal) have no native probe".into()],
    }
}
