//! C17: reported origin equals the kernel's facts, absent when unknown.
//! (a) real deliveries: sending mechanism x signal, each in a single-threaded forked child, observed
//!     by the library (WithOrigin iterator and Origin::extract in an action) and independently by a
//!     harness SA_SIGINFO handler installed before the library (so it is chained);
//! (b) synthetic records: si_signo x si_code grid with the union poisoned.
#![allow(clippy::all)]
use super::*;
use crate::histex::{run_cells, BResult, BViolation, Emit, Fate};
use serde_json::json;
use signal_hook::iterator::exfiltrator::WithOrigin;
use signal_hook::iterator::SignalsInfo;
use signal_hook::low_level::siginfo::{Cause, Chld, Origin, Sent};
use std::sync::atomic::{AtomicI64, Ordering};
use std::time::Duration;

static RAW: [AtomicI64; 5] = [AtomicI64::new(-1), AtomicI64::new(-1), AtomicI64::new(-1), AtomicI64::new(-1), AtomicI64::new(0)];
static RAWLOG: [[AtomicI64; 4]; 8] = {
    const Z: AtomicI64 = AtomicI64::new(-1);
    const R: [AtomicI64; 4] = [Z; 4];
    [R; 8]
};
static EXT: [AtomicI64; 6] = [AtomicI64::new(-1), AtomicI64::new(-1), AtomicI64::new(-1), AtomicI64::new(-1), AtomicI64::new(-1), AtomicI64::new(0)];

extern "C" fn independent(sig: libc::c_int, info: *mut libc::siginfo_t, _ctx: *mut libc::c_void) {
    let i = unsafe { &*info };
    RAW[0].store(i.si_signo as i64, Ordering::SeqCst);
    RAW[1].store(i.si_code as i64, Ordering::SeqCst);
    RAW[2].store(unsafe { i.si_pid() } as i64, Ordering::SeqCst);
    RAW[3].store(unsafe { i.si_uid() } as i64, Ordering::SeqCst);
    let k = RAW[4].fetch_add(1, Ordering::SeqCst) as usize;
    if k < 8 {
        RAWLOG[k][0].store(i.si_signo as i64, Ordering::SeqCst);
        RAWLOG[k][1].store(i.si_code as i64, Ordering::SeqCst);
        RAWLOG[k][2].store(unsafe { i.si_pid() } as i64, Ordering::SeqCst);
        RAWLOG[k][3].store(unsafe { i.si_uid() } as i64, Ordering::SeqCst);
    }
    let _ = sig;
}

fn cause_code(c: &Cause) -> i64 {
    match c {
        Cause::Unknown => 0,
        Cause::Kernel => 1,
        Cause::Sent(Sent::User) => 2,
        Cause::Sent(Sent::TKill) => 3,
        Cause::Sent(Sent::Queue) => 4,
        Cause::Sent(Sent::MesgQ) => 5,
        Cause::Chld(Chld::Exited) => 6,
        Cause::Chld(Chld::Killed) => 7,
        Cause::Chld(Chld::Dumped) => 8,
        Cause::Chld(Chld::Trapped) => 9,
        Cause::Chld(Chld::Stopped) => 10,
        Cause::Chld(Chld::Continued) => 11,
        _ => 99,
    }
}

/// The rule: class of a raw (signo, code) and whether the kernel supplies pid/uid with it.
pub fn rule(signo: i32, code: i32) -> (i64, bool) {
    match code {
        0x80 => (1, false),
        0 => (2, true),
        -6 => (3, true),
        -1 => (4, true),
        -3 => (5, true),
        1..=6 if signo == libc::SIGCHLD => (5 + code as i64, true),
        _ => (0, false),
    }
}

const MECH: [&str; 13] = ["kill(self)", "raise", "sigqueue(self)", "kill from a grandchild", "child exits", "child killed", "child stopped", "child continued", "setitimer", "timer_create", "write to a closed pipe", "burst of 7 x raise before anything is read (the per-signal buffer holds 5)", "raise, after an info-less flag::register was the first registration of the signal"];

extern "C" {
    fn sigqueue(pid: libc::pid_t, sig: libc::c_int, value: libc::sigval) -> libc::c_int;
    fn setitimer(which: libc::c_int, new: *const libc::itimerval, old: *mut libc::itimerval) -> libc::c_int;
}

fn send(mech: usize, sig: i32) -> Option<i32> {
    // returns the expected sender pid if the mechanism defines one (for cross-checking), performs the send
    let me = unsafe { libc::getpid() };
    unsafe {
        match mech {
            0 => {
                libc::kill(me, sig);
                Some(me)
            }
            1 => {
                libc::raise(sig);
                Some(me)
            }
            12 => {
                libc::raise(sig);
                Some(me)
            }
            11 => {
                for _ in 0..7 {
                    libc::raise(sig);
                }
                Some(me)
            }
            2 => {
                sigqueue(me, sig, libc::sigval { sival_ptr: 7 as *mut _ });
                Some(me)
            }
            3 => {
                let mut p = [0i32; 2];
                libc::pipe(p.as_mut_ptr());
                let c = libc::fork();
                if c == 0 {
                    libc::kill(me, sig);
                    libc::_exit(0);
                }
                // SIGCHLD of the helper would overwrite the observation when sig == SIGCHLD: wait first
                let mut st = 0;
                libc::waitpid(c, &mut st, 0);
                Some(c)
            }
            4 | 5 | 6 | 7 => {
                let c = libc::fork();
                if c == 0 {
                    match mech {
                        4 => libc::_exit(3),
                        5 => {
                            libc::raise(libc::SIGKILL);
                        }
                        _ => {
                            libc::raise(libc::SIGSTOP);
                            libc::_exit(0);
                        }
                    }
                    libc::_exit(0);
                }
                let mut st = 0;
                match mech {
                    4 | 5 => {
                        libc::waitpid(c, &mut st, 0);
                    }
                    6 => {
                        libc::waitpid(c, &mut st, libc::WUNTRACED);
                        // observation is taken by the caller now; cleanup later is irrelevant
                    }
                    _ => {
                        libc::waitpid(c, &mut st, libc::WUNTRACED);
                        libc::kill(c, libc::SIGCONT);
                        libc::waitpid(c, &mut st, libc::WCONTINUED);
                    }
                }
                // give the kernel's SIGCHLD a moment (it is synchronous with the state change, but be safe)
                let need = if mech == 7 { 2 } else { 1 };
                for _ in 0..5000 {
                    if RAW[4].load(Ordering::SeqCst) >= need {
                        break;
                    }
                    libc::usleep(1000);
                }
                if mech >= 6 {
                    libc::kill(c, libc::SIGKILL);
                }
                Some(c)
            }
            8 => {
                let it = libc::itimerval { it_interval: libc::timeval { tv_sec: 0, tv_usec: 0 }, it_value: libc::timeval { tv_sec: 0, tv_usec: 2000 } };
                setitimer(0, &it, std::ptr::null_mut());
                for _ in 0..5000 {
                    if RAW[4].load(Ordering::SeqCst) > 0 {
                        break;
                    }
                    libc::usleep(1000);
                }
                None
            }
            9 => {
                let mut sev: libc::sigevent = std::mem::zeroed();
                sev.sigev_notify = libc::SIGEV_SIGNAL;
                sev.sigev_signo = sig;
                let mut t: libc::timer_t = std::mem::zeroed();
                libc::timer_create(libc::CLOCK_MONOTONIC, &mut sev, &mut t);
                let its = libc::itimerspec { it_interval: libc::timespec { tv_sec: 0, tv_nsec: 0 }, it_value: libc::timespec { tv_sec: 0, tv_nsec: 2_000_000 } };
                libc::timer_settime(t, 0, &its, std::ptr::null_mut());
                for _ in 0..5000 {
                    if RAW[4].load(Ordering::SeqCst) > 0 {
                        break;
                    }
                    libc::usleep(1000);
                }
                None
            }
            _ => {
                let mut p = [0i32; 2];
                libc::pipe(p.as_mut_ptr());
                libc::close(p[0]);
                let b = [0u8; 1];
                libc::write(p[1], b.as_ptr() as *const _, 1);
                None
            }
        }
    }
}

fn applicable(mech: usize, sig: i32) -> bool {
    match mech {
        4..=7 => sig == libc::SIGCHLD,
        8 => sig == libc::SIGALRM,
        10 => sig == libc::SIGPIPE,
        _ => true,
    }
}

fn real_cell(mech: usize, sig: i32, e: &mut Emit) {
    // independent reader first, so that the library chains to it
    unsafe {
        let mut sa: libc::sigaction = std::mem::zeroed();
        sa.sa_sigaction = independent as usize;
        sa.sa_flags = libc::SA_SIGINFO;
        libc::sigaction(sig, &sa, std::ptr::null_mut());
    }
    if mech == 12 {
        // the signal's very first registration goes through an entry point that does not want the info
        let _ = signal_hook::flag::register(sig, std::sync::Arc::new(std::sync::atomic::AtomicBool::new(false)));
    }
    let mut it = match SignalsInfo::<WithOrigin>::new(&[sig]) {
        Ok(i) => i,
        Err(er) => {
            e.line(&format!("unregistrable {}", er));
            return;
        }
    };
    unsafe {
        signal_hook_registry::register_sigaction(sig, |info| {
            let o = Origin::extract(info);
            EXT[0].store(o.signal as i64, Ordering::SeqCst);
            EXT[1].store(cause_code(&o.cause), Ordering::SeqCst);
            EXT[2].store(o.process.map_or(-7, |p| p.pid as i64), Ordering::SeqCst);
            EXT[3].store(o.process.map_or(-7, |p| p.uid as i64), Ordering::SeqCst);
            EXT[4].store(o.process.is_some() as i64, Ordering::SeqCst);
            EXT[5].fetch_add(1, Ordering::SeqCst);
        })
    }
    .unwrap();
    let expect_pid = send(mech, sig);
    e.line(&format!("raw n={} signo={} code={} pid={} uid={}", RAW[4].load(Ordering::SeqCst), RAW[0].load(Ordering::SeqCst), RAW[1].load(Ordering::SeqCst), RAW[2].load(Ordering::SeqCst), RAW[3].load(Ordering::SeqCst)));
    e.line(&format!("ext n={} signal={} cause={} has={} pid={} uid={}", EXT[5].load(Ordering::SeqCst), EXT[0].load(Ordering::SeqCst), EXT[1].load(Ordering::SeqCst), EXT[4].load(Ordering::SeqCst), EXT[2].load(Ordering::SeqCst), EXT[3].load(Ordering::SeqCst)));
    let got: Vec<Origin> = it.pending().collect();
    for o in &got {
        e.line(&format!("iter signal={} cause={} has={} pid={} uid={}", o.signal, cause_code(&o.cause), o.process.is_some() as i64, o.process.map_or(-7, |p| p.pid as i64), o.process.map_or(-7, |p| p.uid as i64)));
    }
    e.line(&format!("iter n={}", got.len()));
    for k in 0..(RAW[4].load(Ordering::SeqCst) as usize).min(8) {
        e.line(&format!("rawlog signo={} code={} pid={} uid={}", RAWLOG[k][0].load(Ordering::SeqCst), RAWLOG[k][1].load(Ordering::SeqCst), RAWLOG[k][2].load(Ordering::SeqCst), RAWLOG[k][3].load(Ordering::SeqCst)));
    }
    e.line(&format!("truth me={} uid={} expect_pid={}", unsafe { libc::getpid() }, unsafe { libc::getuid() }, expect_pid.unwrap_or(-1)));
    e.line("done");
}

fn synthetic(e: &mut Emit) {
    let mut codes: Vec<i32> = (-10..=10).collect();
    codes.extend([0x80, i32::MIN, i32::MAX]);
    for signo in 1..=64 {
        for &code in &codes {
            let mut info: libc::siginfo_t = unsafe { std::mem::zeroed() };
            unsafe {
                std::ptr::write_bytes(&mut info as *mut _ as *mut u8, 0xAB, std::mem::size_of::<libc::siginfo_t>());
            }
            info.si_signo = signo;
            info.si_errno = 0;
            info.si_code = code;
            let o = unsafe { Origin::extract(&info) };
            e.line(&format!("{} {} {} {} {} {}", signo, code, cause_code(&o.cause), o.process.is_some() as i64, o.process.map_or(0, |p| p.pid as i64), o.signal));
            // the same record with particular pid / uid values the kernel really supplies: pid 0 is what
            // a receiver sees for a sender outside its pid namespace, uid 0 is root
            for (pid, uid) in [(0i32, 4242u32), (0, 0), (4242, 0), (1, 1)] {
                #[repr(C)]
                struct Head {
                    signo: i32,
                    errno: i32,
                    code: i32,
                    _pad: i32,
                    pid: i32,
                    uid: u32,
                }
                let h = unsafe { &mut *(&mut info as *mut libc::siginfo_t as *mut Head) };
                h.pid = pid;
                h.uid = uid;
                assert_eq!(unsafe { info.si_pid() }, pid);
                assert_eq!(unsafe { info.si_uid() }, uid);
                let o = unsafe { Origin::extract(&info) };
                e.line(&format!("V {} {} {} {} {} {} {}", signo, code, o.process.is_some() as i64, o.process.map_or(-1, |p| p.pid as i64), o.process.map_or(-1, |p| p.uid as i64), pid, uid));
            }
        }
    }
    e.line("done");
}

pub fn run(tier: Tier) -> BResult {
    // catchable, non-forbidden numbers the OS accepts
    let mut sigs: Vec<i32> = Vec::new();
    for s in 1..=64 {
        if forbidden(s) || s == 32 || s == 33 {
            continue;
        }
        sigs.push(s);
    }
    let quick_sigs = [libc::SIGUSR1, libc::SIGCHLD, libc::SIGALRM, libc::SIGPIPE, libc::SIGTERM, libc::SIGRTMIN()];
    let mut cells: Vec<(usize, i32)> = Vec::new();
    for m in 0..MECH.len() {
        for &s in &sigs {
            if !applicable(m, s) {
                continue;
            }
            if tier == Tier::Quick && !quick_sigs.contains(&s) {
                continue;
            }
            cells.push((m, s));
        }
    }
    let ncells = cells.len();
    let cells2 = cells.clone();
    let probes = run_cells(ncells + 1, 12, Duration::from_secs(40), move |i, e| {
        if i == ncells {
            synthetic(e)
        } else {
            real_cell(cells2[i].0, cells2[i].1, e)
        }
    });
    let mut violations = Vec::new();
    let mut samples = Vec::new();
    let mut classes: std::collections::BTreeMap<String, u64> = Default::default();
    let mut distinct = std::collections::HashSet::new();
    let kv = |line: &str, key: &str| -> i64 { line.split_whitespace().find_map(|t| t.strip_prefix(key)).and_then(|x| x.parse().ok()).unwrap_or(i64::MIN) };
    for (i, p) in probes.iter().enumerate().take(ncells) {
        let (m, s) = cells[i];
        let case = json!({"mechanism": MECH[m], "signal": s});
        let mut bad: Option<String> = None;
        if p.lines.iter().any(|l| l.starts_with("unregistrable")) {
            *classes.entry("unregistrable".into()).or_insert(0) += 1;
            continue;
        }
        if p.fate != Fate::Exited(0) || !p.has("done") {
            bad = Some(format!("child {}: {:?}", p.fate.describe(), p.lines.last()));
        } else {
            let raw = p.find("raw ").unwrap_or("");
            let ext = p.find("ext ").unwrap_or("");
            let truth = p.find("truth ").unwrap_or("");
            let (rn, rsig, rcode, rpid, ruid) = (kv(raw, "n="), kv(raw, "signo="), kv(raw, "code="), kv(raw, "pid="), kv(raw, "uid="));
            *classes.entry(format!("{}:code={}", MECH[m], rcode)).or_insert(0) += 1;
            distinct.insert((m, rcode));
            if rn < 1 {
                bad = Some("the delivery was not observed by the independent reader (harness problem or not chained)".into());
            } else {
                // (who, signal, cause, has, pid, uid, raw signo, raw code, raw pid, raw uid, last?)
                let mut views: Vec<(String, i64, i64, i64, i64, i64, i64, i64, i64, i64, bool)> = vec![("Origin::extract in an action".into(), kv(ext, "signal="), kv(ext, "cause="), kv(ext, "has="), kv(ext, "pid="), kv(ext, "uid="), rsig, rcode, rpid, ruid, true)];
                let iters = p.all("iter signal=");
                let rawlog = p.all("rawlog ");
                if iters.is_empty() {
                    bad = Some("the WithOrigin iterator yielded nothing for the delivery".into());
                }
                if iters.len() > rawlog.len() {
                    bad = Some(format!("the WithOrigin iterator yielded {} records for {} deliveries", iters.len(), rawlog.len()));
                }
                for (k, l) in iters.iter().enumerate() {
                    if k >= rawlog.len() {
                        break;
                    }
                    let l2 = format!("signal={}", l);
                    let r = rawlog[k];
                    views.push(("WithOrigin iterator".into(), kv(&l2, "signal="), kv(&l2, "cause="), kv(&l2, "has="), kv(&l2, "pid="), kv(&l2, "uid="), kv(r, "signo="), kv(r, "code="), kv(r, "pid="), kv(r, "uid="), k + 1 == rawlog.len()));
                }
                for (who, sg, cause, has, pid, uid, rsig, rcode, rpid, ruid, last) in views {
                    if bad.is_some() {
                        break;
                    }
                    let (want_cause, want_proc) = rule(rsig as i32, rcode as i32);
                    if sg != s as i64 || rsig != s as i64 {
                        bad = Some(format!("{}: reported signal {} for a delivery of {}", who, sg, s));
                    } else if cause != want_cause {
                        bad = Some(format!("{}: cause class {} but the raw si_code {} means class {}", who, cause, rcode, want_cause));
                    } else if (has == 1) != want_proc {
                        bad = Some(format!("{}: process {} although the kernel {} pid/uid for si_code {}", who, if has == 1 { "reported" } else { "absent" }, if want_proc { "supplies" } else { "does not supply" }, rcode));
                    } else if want_proc && (pid != rpid || uid != ruid) {
                        bad = Some(format!("{}: process ({}, {}) differs from the kernel's ({}, {})", who, pid, uid, rpid, ruid));
                    } else if last && want_proc && kv(truth, "expect_pid=") > 0 && pid != kv(truth, "expect_pid=") && !(m == 3 && s == libc::SIGCHLD) {
                        bad = Some(format!("{}: pid {} but the sender was {}", who, pid, kv(truth, "expect_pid=")));
                    } else if want_proc && uid != kv(truth, "uid=") {
                        bad = Some(format!("{}: uid {} but the sender's uid is {}", who, uid, kv(truth, "uid=")));
                    }
                }
            }
        }
        if samples.len() < 4 && i % 17 == 0 {
            samples.push(json!({"case": case, "reported": p.lines}));
        }
        if let Some(mm) = bad {
            violations.push(BViolation { message: format!("C17: {} / signal {}: {}", MECH[m], s, mm), case });
        }
    }
    // synthetic grid
    let syn = &probes[ncells];
    let mut syn_n = 0u64;
    if syn.fate != Fate::Exited(0) || !syn.has("done") {
        violations.push(BViolation { message: format!("C17: synthetic grid child {}", syn.fate.describe()), case: json!({"synthetic": true}) });
    }
    for l in &syn.lines {
        if let Some(rest) = l.strip_prefix("V ") {
            let t: Vec<i64> = rest.split_whitespace().filter_map(|x| x.parse().ok()).collect();
            if t.len() != 7 {
                continue;
            }
            syn_n += 1;
            let (signo, code, has, pid, uid, wpid, wuid) = (t[0], t[1], t[2], t[3], t[4], t[5], t[6]);
            let (_, wp) = rule(signo as i32, code as i32);
            let case = json!({"synthetic": true, "si_signo": signo, "si_code": code, "si_pid": wpid, "si_uid": wuid});
            if (has == 1) != wp {
                violations.push(BViolation { message: format!("C17: synthetic si_signo {} si_code {} with si_pid {} si_uid {}: process {} (rule: {} - exactly when the cause carries one, whatever the values)", signo, code, wpid, wuid, if has == 1 { "reported" } else { "absent" }, if wp { "present" } else { "absent" }), case });
            } else if wp && (pid != wpid || uid != wuid) {
                violations.push(BViolation { message: format!("C17: synthetic si_signo {} si_code {}: reported pid {} uid {} but the record holds pid {} uid {}", signo, code, pid, uid, wpid, wuid), case });
            }
            continue;
        }
        let t: Vec<i64> = l.split_whitespace().filter_map(|x| x.parse().ok()).collect();
        if t.len() != 6 {
            continue;
        }
        syn_n += 1;
        let (signo, code, cause, has, pid, sig) = (t[0], t[1], t[2], t[3], t[4], t[5]);
        let (wc, wp) = rule(signo as i32, code as i32);
        distinct.insert((100 + wc as usize, if wp { 1 } else { 0 }));
        let case = json!({"synthetic": true, "si_signo": signo, "si_code": code});
        let poison = i32::from_ne_bytes([0xAB; 4]) as i64;
        if sig != signo {
            violations.push(BViolation { message: format!("C17: synthetic si_signo {} si_code {}: reported signal {}", signo, code, sig), case });
        } else if cause != wc {
            violations.push(BViolation { message: format!("C17: synthetic si_signo {} si_code {}: cause class {} (rule: {})", signo, code, cause, wc), case });
        } else if (has == 1) != wp {
            violations.push(BViolation { message: format!("C17: synthetic si_signo {} si_code {}: process {} (rule: {}) - stale or overlapping memory would be reported", signo, code, if has == 1 { "reported" } else { "absent" }, if wp { "present" } else { "absent" }), case });
        } else if wp && pid != poison {
            violations.push(BViolation { message: format!("C17: synthetic si_signo {} si_code {}: pid {:#x} is not the value stored in the record", signo, code, pid), case });
        }
    }
    *classes.entry("synthetic records".into()).or_insert(0) += syn_n;
    // schedules (engine A): handlers of one signal running on several threads at once
    let mut a_caps: Vec<serde_json::Value> = Vec::new();
    let (mut a_states, mut a_trans, mut a_execs) = (0u64, 0u64, 0u64);
    for it in crate::props::iter::scenarios_c17(tier) {
        let name = it.run.name();
        let cfg = crate::explore::Config { property: "C17".into(), bound: it.bound, max_wall: Duration::from_secs(if tier == Tier::Quick { 30 } else { 600 }), workers: crate::props::workers_for(it.run.nthreads()), hang_secs: 30 };
        match crate::explore::explore(&*it.run, &cfg) {
            Ok(sum) => {
                eprintln!("[C17] schedules {:<48} bound={:?} execs={} states={} steps={} distinct={}{}", name, cfg.bound, sum.stats.executions, sum.stats.states, sum.stats.transitions, sum.stats.digests.len(), if sum.stats.capped { " CAPPED" } else { "" });
                a_states += sum.stats.states;
                a_trans += sum.stats.transitions;
                a_execs += sum.stats.executions;
                if sum.stats.capped {
                    a_caps.push(json!({"scenario": name, "cap": "wall-clock"}));
                }
                *classes.entry(format!("schedules:{}", name)).or_insert(0) += sum.stats.executions;
                for v in sum.violations {
                    let cl = crate::explore::class_of(&v.message);
                    if cl == "engine" {
                        violations.push(BViolation { message: format!("engine: {}", v.message), case: json!({"scenario": name}) });
                    } else if cl == "C17" || cl == "crash" || cl == "hung" || cl == "panic" || cl == "race" {
                        violations.push(BViolation { message: format!("C17: {} [schedule replay: {}]", v.message.trim_start_matches("C17: "), v.replay), case: json!({"scenario": name, "engine": "sigsched", "choices": v.choices}) });
                    }
                }
            }
            Err(er) => violations.push(BViolation { message: format!("engine: {}", er), case: json!({"scenario": name}) }),
        }
    }
    BResult {
        states: ncells as u64 + syn_n + a_states,
        transitions: ncells as u64 * 3 + syn_n + a_trans,
        evaluations: ncells as u64 + syn_n + a_execs,
        distinct: distinct.len() as u64,
        samples,
        per_class: json!(classes),
        violations,
        exhaustive: a_caps.is_empty(),
        caps: a_caps,
        rule: "schedules (engine A, deviation-bounded, real code): handlers of one signal running on three threads at once with the origin exfiltrator, every origin handed out carries the facts of a delivery; complete grid sending mechanism (13, incl. a delivery after an info-less first registration of the signal and a burst longer than the per-signal buffer: every record that comes out must be one of the deliveries) x catchable non-forbidden signal (quick: 6 representative numbers; thorough: all) with the delivery observed by the library twice and by an independent chained SA_SIGINFO reader; plus the complete synthetic grid si_signo 1..64 x si_code in [-10,10]+{0x80,MIN,MAX} with a poisoned union, and again with si_pid / si_uid in {(0,4242), (0,0), (4242,0), (1,1)} (pid 0 = sender outside the receiver's pid namespace); distinct = distinct (mechanism, raw si_code) and (cause class, process?) pairs".into(),
        assumptions: vec!["the independent reader uses libc's own siginfo accessors".into(), "feature extended-siginfo (extract.c compiled with the system C compiler)".into()],
    }
}
