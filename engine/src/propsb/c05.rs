//! C05: the registry behaves as independent per-signal ordered multisets with unique ids.
//! Explicit-state BFS over reference-model states; every state's history is re-executed on the
//! real registry from a reset, every step compared with the model. Plus grids: every signal number,
//! a 10 000-step id cycle, and system-call restart.
#![allow(clippy::all)]
use super::*;
use crate::histex::{run_cells, BResult, BViolation, Emit, Fate};
use serde_json::json;
use signal_hook_registry as reg;
use std::collections::{HashSet, VecDeque};
use std::sync::atomic::{AtomicUsize, Ordering};
use std::time::Duration;

fn sigs() -> [i32; 3] {
    [libc::SIGUSR1, libc::SIGUSR2, libc::SIGRTMIN() + 1]
}

#[derive(Clone, Copy, Debug, PartialEq, Eq, Hash)]
pub enum Op {
    Reg(u8),
    RegInfo(u8),
    Unreg(u8),
    UnregSig(u8),
    Deliver(u8),
}

static RUNLOG: [AtomicUsize; 64] = {
    const Z: AtomicUsize = AtomicUsize::new(0);
    [Z; 64]
};
static RUNLEN: AtomicUsize = AtomicUsize::new(0);

fn note(k: usize) {
    let i = RUNLEN.fetch_add(1, Ordering::SeqCst);
    if i < 64 {
        RUNLOG[i].store(k, Ordering::SeqCst);
    }
}

fn take_runlog() -> Vec<usize> {
    let n = RUNLEN.swap(0, Ordering::SeqCst).min(64);
    (0..n).map(|i| RUNLOG[i].load(Ordering::SeqCst)).collect()
}

/// Model state: for every id ever issued (signal index, live).
type MState = Vec<(u8, bool)>;

fn model_apply(st: &MState, op: Op) -> (MState, String) {
    let mut s = st.clone();
    let res;
    match op {
        Op::Reg(i) | Op::RegInfo(i) => {
            s.push((i, true));
            res = "ok".to_string();
        }
        Op::Unreg(k) => {
            let k = k as usize;
            res = format!("{}", s[k].1);
            s[k].1 = false;
        }
        Op::UnregSig(i) => {
            let any = s.iter().any(|x| x.0 == i && x.1);
            res = format!("{}", any);
            for x in s.iter_mut() {
                if x.0 == i {
                    x.1 = false;
                }
            }
        }
        Op::Deliver(i) => {
            let v: Vec<usize> = s.iter().enumerate().filter(|(_, x)| x.0 == i && x.1).map(|(k, _)| k).collect();
            res = format!("{:?}", v);
        }
    }
    (s, res)
}

fn reset_all() {
    reg::verif::reset_registry(false);
    for s in sigs() {
        unsafe {
            let mut sa: libc::sigaction = std::mem::zeroed();
            sa.sa_sigaction = libc::SIG_IGN;
            libc::sigaction(s, &sa, std::ptr::null_mut());
        }
    }
    take_runlog();
}

/// Execute a history on the implementation; returns Err(description) at the first disagreement.
fn execute(hist: &[Op], ops_done: &mut u64) -> Result<(), String> {
    reset_all();
    let sg = sigs();
    let mut ids: Vec<reg::SigId> = Vec::new();
    let mut st: MState = Vec::new();
    for (n, &op) in hist.iter().enumerate() {
        let (next, want) = model_apply(&st, op);
        *ops_done += 1;
        let got = match op {
            Op::Reg(i) => {
                let k = ids.len();
                match unsafe { reg::register(sg[i as usize], move || note(k)) } {
                    Ok(id) => {
                        if ids.contains(&id) {
                            return Err(format!("step {} {:?}: the id returned was handed out before", n, op));
                        }
                        ids.push(id);
                        "ok".to_string()
                    }
                    Err(e) => format!("err {}", e),
                }
            }
            Op::RegInfo(i) => {
                let k = ids.len();
                let s = sg[i as usize];
                match unsafe { reg::register_sigaction(s, move |info| { if info.si_signo == s { note(k) } else { note(99) } }) } {
                    Ok(id) => {
                        if ids.contains(&id) {
                            return Err(format!("step {} {:?}: the id returned was handed out before", n, op));
                        }
                        ids.push(id);
                        "ok".to_string()
                    }
                    Err(e) => format!("err {}", e),
                }
            }
            Op::Unreg(k) => format!("{}", reg::unregister(ids[k as usize])),
            Op::UnregSig(i) => {
                #[allow(deprecated)]
                let r = reg::unregister_signal(sg[i as usize]);
                format!("{}", r)
            }
            Op::Deliver(i) => {
                unsafe {
                    libc::raise(sg[i as usize]);
                }
                format!("{:?}", take_runlog())
            }
        };
        if got != want {
            return Err(format!("step {} {:?}: implementation answered {} but the model says {} (history {:?})", n, op, got, want, hist));
        }
        st = next;
    }
    // probe every signal + dispositions
    for (i, &s) in sg.iter().enumerate() {
        let (_, want) = model_apply(&st, Op::Deliver(i as u8));
        unsafe {
            libc::raise(s);
        }
        *ops_done += 1;
        let got = format!("{:?}", take_runlog());
        if got != want {
            return Err(format!("probe delivery of signal {} after {:?}: ran {} but the model says {}", s, hist, got, want));
        }
        let taken = st.iter().any(|x| x.0 as usize == i);
        if taken {
            let (h, flags) = unsafe {
                let mut sa: libc::sigaction = std::mem::zeroed();
                libc::sigaction(s, std::ptr::null(), &mut sa);
                (sa.sa_sigaction, sa.sa_flags)
            };
            if h != reg::verif::handler_address() || flags & libc::SA_RESTART == 0 || flags & libc::SA_SIGINFO == 0 {
                return Err(format!("after {:?} the disposition of taken-over signal {} is handler {:#x} flags {:#x} (must stay the library's handler with SA_RESTART|SA_SIGINFO)", hist, s, h, flags));
            }
        }
    }
    Ok(())
}

fn enabled_ops(st: &MState) -> Vec<Op> {
    let mut v = Vec::new();
    for i in 0..3u8 {
        v.push(Op::Reg(i));
    }
    for i in 0..3u8 {
        v.push(Op::RegInfo(i));
    }
    for k in 0..st.len() {
        v.push(Op::Unreg(k as u8));
    }
    for i in 0..3u8 {
        v.push(Op::UnregSig(i));
    }
    for i in 0..3u8 {
        v.push(Op::Deliver(i));
    }
    v
}

/// BFS below a fixed prefix; emits counts and the first violations.
fn bfs_chunk(prefix: &[Op], depth: usize, e: &mut Emit) {
    let mut seen: HashSet<(MState, Vec<bool>)> = HashSet::new();
    let mut q: VecDeque<(Vec<Op>, MState, Vec<bool>)> = VecDeque::new();
    let mut st: MState = Vec::new();
    let mut infos: Vec<bool> = Vec::new();
    for &op in prefix {
        st = model_apply(&st, op).0;
        if let Op::RegInfo(_) = op {
            infos.push(true)
        } else if let Op::Reg(_) = op {
            infos.push(false)
        }
    }
    let mut ops_done = 0u64;
    let mut states = 0u64;
    let mut hist_run = 0u64;
    let mut viol = 0;
    if let Err(m) = execute(prefix, &mut ops_done) {
        e.line(&format!("VIOL {}", m));
        viol += 1;
    }
    hist_run += 1;
    seen.insert((st.clone(), infos.clone()));
    q.push_back((prefix.to_vec(), st, infos));
    let mut sample = String::new();
    while let Some((h, st, infos)) = q.pop_front() {
        states += 1;
        if h.len() >= depth {
            continue;
        }
        for op in enabled_ops(&st) {
            let mut h2 = h.clone();
            h2.push(op);
            let (st2, _) = model_apply(&st, op);
            let mut infos2 = infos.clone();
            match op {
                Op::Reg(_) => infos2.push(false),
                Op::RegInfo(_) => infos2.push(true),
                _ => {}
            }
            let changes = !matches!(op, Op::Deliver(_));
            let is_new = changes && !seen.contains(&(st2.clone(), infos2.clone()));
            // every transition is executed (a history ending in this op), new states are enqueued
            if let Err(m) = execute(&h2, &mut ops_done) {
                if viol < 5 {
                    e.line(&format!("VIOL {}", m));
                }
                viol += 1;
            }
            hist_run += 1;
            if sample.is_empty() && h2.len() == depth {
                sample = format!("{:?}", h2);
            }
            if is_new {
                seen.insert((st2.clone(), infos2.clone()));
                q.push_back((h2, st2, infos2));
            }
        }
    }
    e.line(&format!("STATS states={} histories={} ops={} violations={}", states, hist_run, ops_done, viol));
    e.line(&format!("SAMPLE {}", sample));
    e.line("done");
}

fn grid_all_signals(e: &mut Emit) {
    for s in 1..=64 {
        if forbidden(s) {
            continue;
        }
        reg::verif::reset_registry(false);
        take_runlog();
        // start from the default disposition: the Rust runtime's own SIGBUS handler (stack overflow
        // detection) would be chained and resets the disposition itself when it is called
        unsafe {
            let mut sa: libc::sigaction = std::mem::zeroed();
            sa.sa_sigaction = libc::SIG_DFL;
            libc::sigaction(s, &sa, std::ptr::null_mut());
        }
        let r = unsafe { reg::register(s, move || note(s as usize)) };
        match r {
            Err(_) => e.line(&format!("sig {} refused", s)),
            Ok(id) => {
                e.line(&format!("progress {} registered", s));
                unsafe {
                    libc::raise(s);
                }
                e.line(&format!("progress {} raised", s));
                let a = take_runlog();
                let u = reg::unregister(id);
                unsafe {
                    libc::raise(s);
                }
                let b = take_runlog();
                let u2 = reg::unregister(id);
                e.line(&format!("sig {} ran={:?} unreg={} after={:?} again={}", s, a, u, b, u2));
            }
        }
    }
    e.line("done");
}

fn grid_cycle(e: &mut Emit) {
    reset_all();
    let s = libc::SIGUSR1;
    let mut seen: HashSet<reg::SigId> = HashSet::new();
    let mut live: Vec<(usize, reg::SigId)> = Vec::new();
    let mut ok = true;
    for k in 0..10_000usize {
        let id = unsafe { reg::register(s, move || note(k % 50)) }.unwrap();
        if !seen.insert(id) {
            e.line(&format!("VIOL id reused at registration {}", k));
            ok = false;
            break;
        }
        live.push((k, id));
        if k % 3 != 0 {
            let (_, old) = live.remove(0);
            if !reg::unregister(old) {
                e.line(&format!("VIOL unregister of a live id returned false at {}", k));
                ok = false;
                break;
            }
            if reg::unregister(old) {
                e.line(&format!("VIOL unregister of a stale id returned true at {}", k));
                ok = false;
                break;
            }
        }
    }
    // keep only the last 10 live, then deliver
    while live.len() > 10 {
        let (_, old) = live.remove(0);
        reg::unregister(old);
    }
    take_runlog();
    unsafe {
        libc::raise(s);
    }
    let ran = take_runlog();
    let want: Vec<usize> = live.iter().map(|x| x.0 % 50).collect();
    e.line(&format!("cycle ok={} ran={:?} want={:?}", ok, ran, want));
    e.line("done");
}

/// Takeover from a foreign handler installed with unusual flags: the library's handler must stay the
/// disposition over several deliveries and after every action is gone. One child per cell.
const PREV_FLAGS: [(i32, &str); 6] = [
    (libc::SA_RESETHAND, "SA_RESETHAND"),
    (libc::SA_NODEFER, "SA_NODEFER"),
    (libc::SA_ONSTACK, "SA_ONSTACK"),
    (libc::SA_NOCLDSTOP | libc::SA_NOCLDWAIT, "SA_NOCLDSTOP|SA_NOCLDWAIT"),
    (libc::SA_RESETHAND | libc::SA_NODEFER | libc::SA_ONSTACK, "SA_RESETHAND|SA_NODEFER|SA_ONSTACK"),
    (libc::SA_RESTART, "SA_RESTART"),
];
const PREV_SIGS: [i32; 3] = [libc::SIGUSR1, libc::SIGURG, libc::SIGCHLD];

fn grid_prev_flags(cell: usize, e: &mut Emit) {
    extern "C" fn f1(_: libc::c_int) {
        note(50);
    }
    extern "C" fn f3(_: libc::c_int, _: *mut libc::siginfo_t, _: *mut libc::c_void) {
        note(50);
    }
    let (fi, rest) = (cell % PREV_FLAGS.len(), cell / PREV_FLAGS.len());
    let (si, info) = (rest % PREV_SIGS.len(), rest / PREV_SIGS.len() == 1);
    let s = PREV_SIGS[si];
    reg::verif::reset_registry(false);
    take_runlog();
    unsafe {
        let mut sa: libc::sigaction = std::mem::zeroed();
        sa.sa_sigaction = if info { f3 as usize } else { f1 as usize };
        sa.sa_flags = PREV_FLAGS[fi].0 | if info { libc::SA_SIGINFO } else { 0 };
        libc::sigaction(s, &sa, std::ptr::null_mut());
    }
    let disp = || -> String {
        let (h, flags) = unsafe {
            let mut sa: libc::sigaction = std::mem::zeroed();
            libc::sigaction(s, std::ptr::null(), &mut sa);
            (sa.sa_sigaction, sa.sa_flags)
        };
        if h == reg::verif::handler_address() && flags & libc::SA_RESTART != 0 && flags & libc::SA_SIGINFO != 0 && flags & libc::SA_RESETHAND == 0 {
            "ours".to_string()
        } else {
            format!("handler={:#x}{} flags={:#x}", h, if h == reg::verif::handler_address() { "(the library's)" } else { "" }, flags)
        }
    };
    let id = unsafe { reg::register(s, || note(1)) }.unwrap();
    e.line(&format!("after-register {}", disp()));
    for k in 0..3 {
        e.line(&format!("progress delivering {}", k));
        unsafe {
            libc::raise(s);
        }
        e.line(&format!("delivery {} ran={:?} {}", k, take_runlog(), disp()));
    }
    reg::unregister(id);
    for k in 3..5 {
        e.line(&format!("progress delivering {}", k));
        unsafe {
            libc::raise(s);
        }
        e.line(&format!("delivery {} ran={:?} {}", k, take_runlog(), disp()));
    }
    e.line("done");
}

/// Signals of the forbidden list can be hooked through the unchecked entry points; the takeover is
/// as permanent for them as for any other signal. (Software-sent; previous disposition: ignore.)
fn grid_unchecked(e: &mut Emit) {
    for &s in &[libc::SIGFPE, libc::SIGILL, libc::SIGSEGV] {
        reg::verif::reset_registry(false);
        take_runlog();
        unsafe {
            let mut sa: libc::sigaction = std::mem::zeroed();
            sa.sa_sigaction = libc::SIG_IGN;
            libc::sigaction(s, &sa, std::ptr::null_mut());
        }
        let disp = || -> bool {
            let (h, flags) = unsafe {
                let mut sa: libc::sigaction = std::mem::zeroed();
                libc::sigaction(s, std::ptr::null(), &mut sa);
                (sa.sa_sigaction, sa.sa_flags)
            };
            h == reg::verif::handler_address() && flags & libc::SA_RESTART != 0 && flags & libc::SA_SIGINFO != 0
        };
        let id1 = unsafe { reg::register_unchecked(s, move |_| note(1)) }.unwrap();
        let id2 = unsafe { reg::register_signal_unchecked(s, move || note(2)) }.unwrap();
        unsafe {
            libc::raise(s);
        }
        let a = take_runlog();
        let u1 = reg::unregister(id1);
        let d1 = disp();
        unsafe {
            libc::raise(s);
        }
        let b = take_runlog();
        let u2 = reg::unregister(id2);
        let d2 = disp();
        e.line(&format!("progress {} last action removed", s));
        unsafe {
            libc::raise(s);
        }
        let c = take_runlog();
        let id3 = unsafe { reg::register_unchecked(s, move |_| note(3)) }.unwrap();
        unsafe {
            libc::raise(s);
        }
        let d = take_runlog();
        reg::unregister(id3);
        e.line(&format!("unchecked {} ran={:?} unreg={} ours={} then={:?} unreg={} ours={} empty={:?} again={:?} ours={}", s, a, u1, d1 as u8, b, u2, d2 as u8, c, d, disp() as u8));
    }
    e.line("done");
}

/// The registry's very first call in a process may be a removal (it answers "nothing removed").
fn grid_first_call(variant: usize, e: &mut Emit) {
    let r = std::panic::catch_unwind(|| {
        if variant == 0 {
            #[allow(deprecated)]
            reg::unregister_signal(libc::SIGUSR1)
        } else {
            #[allow(deprecated)]
            reg::unregister_signal(libc::SIGRTMIN() + 2)
        }
    });
    e.line(&format!("first-call {}", match r { Ok(b) => format!("{}", b), Err(_) => "panic".to_string() }));
    let id = unsafe { reg::register(libc::SIGUSR1, || note(1)) };
    e.line(&format!("then-register {}", if id.is_ok() { "ok" } else { "err" }));
    e.line("done");
}

fn grid_restart(e: &mut Emit) {
    reset_all();
    let s = libc::SIGUSR1;
    unsafe { reg::register(s, || note(7)) }.unwrap();
    let mut p = [0i32; 2];
    unsafe {
        libc::pipe(p.as_mut_ptr());
        let me = libc::getpid();
        let c = libc::fork();
        if c == 0 {
            libc::usleep(30_000);
            libc::kill(me, s);
            libc::usleep(30_000);
            let b = [9u8];
            libc::write(p[1], b.as_ptr() as *const _, 1);
            libc::_exit(0);
        }
        let mut b = [0u8; 1];
        let r = libc::read(p[0], b.as_mut_ptr() as *mut _, 1);
        let err = *libc::__errno_location();
        let mut st = 0;
        libc::waitpid(c, &mut st, 0);
        e.line(&format!("restart read={} errno={} byte={} ran={:?}", r, if r < 0 { err } else { 0 }, b[0], take_runlog()));
    }
    e.line("done");
}

pub fn run(tier: Tier) -> BResult {
    let depth = if tier == Tier::Quick { 6 } else { 8 };
    // chunks: every history of length 2 is the root of one chunk
    let mut prefixes: Vec<Vec<Op>> = Vec::new();
    let empty: MState = Vec::new();
    for a in enabled_ops(&empty) {
        let (st1, _) = model_apply(&empty, a);
        for b in enabled_ops(&st1) {
            prefixes.push(vec![a, b]);
        }
    }
    let n = prefixes.len();
    let pre2 = prefixes.clone();
    let nprev = PREV_FLAGS.len() * PREV_SIGS.len() * 2;
    let probes = run_cells(n + 6 + nprev, 16, Duration::from_secs(if tier == Tier::Quick { 50 } else { 900 }), move |i, e| {
        if i < n {
            bfs_chunk(&pre2[i], depth, e)
        } else if i == n {
            grid_all_signals(e)
        } else if i == n + 1 {
            grid_cycle(e)
        } else if i == n + 2 {
            grid_restart(e)
        } else if i < n + 3 + nprev {
            grid_prev_flags(i - n - 3, e)
        } else if i == n + 3 + nprev {
            grid_unchecked(e)
        } else {
            grid_first_call(i - (n + 4 + nprev), e)
        }
    });
    let mut violations = Vec::new();
    let mut samples = Vec::new();
    let (mut states, mut hists, mut ops) = (0u64, 0u64, 0u64);
    let mut caps = Vec::new();
    let kv = |line: &str, key: &str| -> u64 { line.split_whitespace().find_map(|t| t.strip_prefix(key)).and_then(|x| x.parse().ok()).unwrap_or(0) };
    for (i, p) in probes.iter().enumerate().take(n) {
        let case = json!({"bfs_root": format!("{:?}", prefixes[i]), "depth": depth});
        if p.fate == Fate::TimedOut {
            caps.push(json!({"chunk": format!("{:?}", prefixes[i]), "cap": "wall-clock"}));
            continue;
        }
        if p.fate != Fate::Exited(0) || !p.has("done") {
            violations.push(BViolation { message: format!("C05: the process {} while executing histories below {:?}", p.fate.describe(), prefixes[i]), case: case.clone() });
        }
        for m in p.all("VIOL ") {
            violations.push(BViolation { message: format!("C05: {}", m), case: case.clone() });
        }
        if let Some(l) = p.find("STATS ") {
            states += kv(l, "states=");
            hists += kv(l, "histories=");
            ops += kv(l, "ops=");
        }
        if samples.len() < 3 && i % 29 == 0 {
            samples.push(json!({"history": p.find("SAMPLE ").unwrap_or("")}));
        }
    }
    // grids
    let g = &probes[n];
    let mut grid_cells = 0u64;
    for l in g.all("sig ") {
        grid_cells += 1;
        if l.contains("refused") {
            continue;
        }
        let s: i32 = l.split_whitespace().next().unwrap().parse().unwrap();
        let want = format!("{} ran=[{}] unreg=true after=[] again=false", s, s);
        if l != want {
            violations.push(BViolation { message: format!("C05: single round on signal {}: observed `{}` (expected `{}`)", s, l, want), case: json!({"grid": "all signals", "signal": s}) });
        }
    }
    if !g.has("done") {
        violations.push(BViolation { message: format!("C05: all-signals grid child {}; last lines {:?}", g.fate.describe(), g.lines.iter().rev().take(3).collect::<Vec<_>>()), case: json!({"grid": "all signals"}) });
    }
    let c = &probes[n + 1];
    for m in c.all("VIOL ") {
        violations.push(BViolation { message: format!("C05: 10000-step cycle: {}", m), case: json!({"grid": "id cycle"}) });
    }
    match c.find("cycle ") {
        Some(l) => {
            let ran = l.split("ran=").nth(1).and_then(|x| x.split(" want=").next()).unwrap_or("");
            let want = l.split("want=").nth(1).unwrap_or("");
            if !l.contains("ok=true") || ran != want {
                violations.push(BViolation { message: format!("C05: 10000-step cycle: {}", l), case: json!({"grid": "id cycle"}) });
            }
        }
        None => violations.push(BViolation { message: format!("C05: id cycle child {}", c.fate.describe()), case: json!({"grid": "id cycle"}) }),
    }
    let r = &probes[n + 2];
    match r.find("restart ") {
        Some(l) => {
            if l != "read=1 errno=0 byte=9 ran=[7]" {
                violations.push(BViolation { message: format!("C05: a blocking read interrupted by a handled signal: {} (must return the byte: SA_RESTART)", l), case: json!({"grid": "restart"}) });
            }
        }
        None => violations.push(BViolation { message: format!("C05: restart probe child {}", r.fate.describe()), case: json!({"grid": "restart"}) }),
    }
    for cell in 0..nprev {
        let p = &probes[n + 3 + cell];
        let (fi, rest) = (cell % PREV_FLAGS.len(), cell / PREV_FLAGS.len());
        let (si, info) = (rest % PREV_SIGS.len(), rest / PREV_SIGS.len() == 1);
        let case = json!({"grid": "takeover from a handler with flags", "signal": PREV_SIGS[si], "previous_flags": PREV_FLAGS[fi].1, "previous_convention": if info { "three-argument" } else { "one-argument" }});
        grid_cells += 1;
        let mut bad: Option<String> = None;
        if p.find("after-register ") != Some("ours") {
            bad = Some(format!("right after register the disposition is {}", p.find("after-register ").unwrap_or("?")));
        }
        for k in 0..5 {
            if bad.is_some() {
                break;
            }
            let want = if k < 3 { format!("ran=[50, 1] ours") } else { "ran=[50] ours".to_string() };
            match p.find(&format!("delivery {} ", k)) {
                Some(l) if l == want => {}
                Some(l) => bad = Some(format!("delivery #{}: {} (expected {}: the chained handler, then the registered action{}, and the library's handler still installed with SA_RESTART|SA_SIGINFO and not one-shot)", k, l, want, if k < 3 { "" } else { " - none left" })),
                None => bad = Some(format!("delivery #{}: the process {}", k, p.fate.describe())),
            }
        }
        if bad.is_none() && (p.fate != Fate::Exited(0) || !p.has("done")) {
            bad = Some(format!("the process {}", p.fate.describe()));
        }
        if let Some(m) = bad {
            violations.push(BViolation { message: format!("C05: signal {} taken over from a {} handler installed with {}: {}", PREV_SIGS[si], if info { "three-argument" } else { "one-argument" }, PREV_FLAGS[fi].1, m), case });
        }
    }
    for k in 0..2 {
        let p = &probes[n + 4 + nprev + k];
        grid_cells += 1;
        if p.find("first-call ") != Some("false") || p.find("then-register ") != Some("ok") || !p.has("done") {
            violations.push(BViolation { message: format!("C05: unregister_signal as the very first registry call of a process: observed {:?} (the process {}); the model says it returns false and the registry works afterwards", p.lines, p.fate.describe()), case: json!({"grid": "first call is a removal", "variant": k}) });
        }
    }
    let gu = &probes[n + 3 + nprev];
    for s in [libc::SIGFPE, libc::SIGILL, libc::SIGSEGV] {
        grid_cells += 1;
        let want = format!("{} ran=[1, 2] unreg=true ours=1 then=[2] unreg=true ours=1 empty=[] again=[3] ours=1", s);
        match gu.lines.iter().find(|l| l.starts_with(&format!("unchecked {} ", s))) {
            Some(l) if l.strip_prefix("unchecked ") == Some(want.as_str()) => {}
            Some(l) => violations.push(BViolation { message: format!("C05: signal {} hooked through the unchecked entry points: observed `{}` (expected `{}`: the library's handler stays the disposition, also with no action left)", s, l, want), case: json!({"grid": "unchecked entry points", "signal": s}) }),
            None => violations.push(BViolation { message: format!("C05: signal {} hooked through the unchecked entry points: the process {} (last: {:?}) - the disposition did not stay the library's handler when the last action was removed", s, gu.fate.describe(), gu.lines.last()), case: json!({"grid": "unchecked entry points", "signal": s}) }),
        }
    }
    samples.push(json!({"grid_all_signals": g.lines.iter().take(3).collect::<Vec<_>>(), "cycle": c.find("cycle "), "restart": r.find("restart ")}));
    // schedules (engine A): concurrent mutators must not disturb each other's actions / signals
    let mut a_caps: Vec<serde_json::Value> = Vec::new();
    let (mut a_states, mut a_trans, mut a_execs) = (0u64, 0u64, 0u64);
    for it in crate::props::reg::scenarios("C05", tier) {
        let name = it.run.name();
        let cfg = crate::explore::Config { property: "C05".into(), bound: it.bound, max_wall: Duration::from_secs(if tier == Tier::Quick { 25 } else { 300 }), workers: crate::props::workers_for(it.run.nthreads()), hang_secs: 30 };
        match crate::explore::explore(&*it.run, &cfg) {
            Ok(sum) => {
                eprintln!("[C05] schedules {:<48} bound={:?} execs={} states={} steps={} distinct={}{}", name, cfg.bound, sum.stats.executions, sum.stats.states, sum.stats.transitions, sum.stats.digests.len(), if sum.stats.capped { " CAPPED" } else { "" });
                a_states += sum.stats.states;
                a_trans += sum.stats.transitions;
                a_execs += sum.stats.executions;
                if sum.stats.capped {
                    a_caps.push(json!({"scenario": name, "cap": "wall-clock"}));
                }
                for v in sum.violations {
                    let class = crate::explore::class_of(&v.message);
                    if class == "C05" || class == "engine" {
                        violations.push(BViolation { message: format!("{} [schedule replay: {}]", v.message, v.replay), case: json!({"scenario": name, "engine": "sigsched", "choices": v.choices}) });
                    }
                }
            }
            Err(er) => violations.push(BViolation { message: format!("engine: {}", er), case: json!({"scenario": name}) }),
        }
    }
    caps.extend(a_caps);
    let states = states + a_states;
    let ops = ops + a_trans;
    let hists = hists + a_execs;
    BResult {
        states: states + grid_cells + 2,
        transitions: ops + 10_000,
        evaluations: hists + grid_cells + 2,
        distinct: states,
        samples,
        per_class: json!({"bfs_chunks": n, "bfs_depth": depth, "model_states_expanded": states, "histories_executed": hists, "grid_signals": grid_cells}),
        violations,
        exhaustive: caps.is_empty(),
        caps,
        rule: format!("schedules: two mutators (on two signals / on one) + deliveries, every choice vector within the deviation bound on the real registry, final probe deliveries compared with the registered set, ids distinct; histories: explicit-state BFS to depth {} over {{register, register_sigaction on 3 signals, unregister(every id ever returned: live and stale), unregister_signal, deliver}}; states = reference-model states (per issued id: signal, live, kind) deduplicated per chunk (one chunk per 2-operation prefix); every transition is executed as a complete history on the real registry from a reset and compared step by step with the model, followed by probe deliveries of all signals and a disposition check; plus grids: all signal numbers 1..64, a 10000-step register/unregister cycle, one system-call-restart probe, and takeover from a foreign handler installed with each of 6 flag sets (SA_RESETHAND, SA_NODEFER, SA_ONSTACK, SA_NOCLDSTOP|SA_NOCLDWAIT, the first three together, SA_RESTART) x 3 signals x both conventions followed by 5 deliveries (3 with an action, 2 with none left), and SIGFPE / SIGILL / SIGSEGV hooked through the unchecked entry points (register, deliver, remove all, deliver, register again)", depth),
        assumptions: vec!["SigId cannot be forged: foreign ids are ids of other signals and stale ids".into(), "registry reset between histories through the cfg(sighook_verif) hook".into()],
    }
}
