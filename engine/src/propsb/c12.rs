//! C12: a Signals instance survives rejected additions and cleans up what it owns.
//! Bounded histories over {new(list), add_signal(x), clone handle, drop handle, drop instance} for
//! three exfiltrators, each history in a forked child that probes after every step (deliveries of
//! three probe signals, wake attempts per signal, what the consumer drains, open descriptors),
//! compared step by step with a reference model; plus the full signal range for add_signal.
#![allow(clippy::all)]
use super::*;
use crate::histex::{counters, run_cells, BResult, BViolation, Emit, Fate};
use serde_json::json;
use signal_hook::iterator::exfiltrator::{Exfiltrator, SignalOnly, WithOrigin, WithRawSiginfo};
use signal_hook::iterator::{Handle, SignalsInfo};
use std::sync::atomic::{AtomicUsize, Ordering};
use std::time::Duration;

const PROBE: [i32; 3] = [libc::SIGUSR1, libc::SIGUSR2, libc::SIGWINCH];
static FOREIGN: [AtomicUsize; 3] = [AtomicUsize::new(0), AtomicUsize::new(0), AtomicUsize::new(0)];

pub trait Ex3: Exfiltrator + Default + 'static {
    fn signo(o: &Self::Output) -> i32;
}
impl Ex3 for SignalOnly {
    fn signo(o: &libc::c_int) -> i32 {
        *o
    }
}
impl Ex3 for WithRawSiginfo {
    fn signo(o: &libc::siginfo_t) -> i32 {
        o.si_signo
    }
}
impl Ex3 for WithOrigin {
    fn signo(o: &signal_hook::low_level::siginfo::Origin) -> i32 {
        o.signal
    }
}

#[derive(Clone, Debug, PartialEq)]
pub enum Step {
    New(Vec<i32>),
    Add(i32),
    CloneHandle,
    DropHandle,
    DropInstance,
}

fn open_fds() -> usize {
    std::fs::read_dir("/proc/self/fd").map(|d| d.count()).unwrap_or(0)
}

fn classify(x: i32) -> &'static str {
    if x < 0 || x >= 128 {
        "panic"
    } else if forbidden(x) {
        "panic"
    } else if x == 0 || x == 32 || x == 33 || x > 64 {
        "err"
    } else {
        "ok"
    }
}

/// Re-adding a watched signal is a no-op also while deliveries of it have not been collected yet:
/// `k` deliveries, (optionally two refused additions,) the re-addition through a clone of the handle,
/// then everything is read.
fn readd_child<E: signal_hook::iterator::exfiltrator::Exfiltrator + Default>(k: usize, refused_between: bool, e: &mut Emit)
where
    E::Output: Send,
{
    use std::panic::{catch_unwind, AssertUnwindSafe as A};
    let mut inst = SignalsInfo::<E>::new(&[libc::SIGUSR1]).unwrap();
    let h = inst.handle();
    for _ in 0..k {
        unsafe {
            libc::raise(libc::SIGUSR1);
        }
    }
    if refused_between {
        let r1 = h.add_signal(100).is_err();
        let r2 = catch_unwind(A(|| h.add_signal(libc::SIGKILL))).is_err();
        e.line(&format!("refused={}{}", r1 as u8, r2 as u8));
    }
    let r = h.clone().add_signal(libc::SIGUSR1);
    e.line(&format!("readd={}", if r.is_ok() { "ok" } else { "err" }));
    let got = inst.pending().count();
    e.line(&format!("collected={}", got));
    unsafe {
        libc::raise(libc::SIGUSR1);
    }
    e.line(&format!("next={}", inst.pending().count()));
    e.line("done");
}

/// One instance per watchable signal number: after the instance is gone a delivery makes no wake
/// attempt and no descriptor is left (the id table is cleaned up over its whole range).
fn every_number_child(sig: i32, e: &mut Emit) {
    crate::histex::counters::install();
    unsafe {
        let mut sa: libc::sigaction = std::mem::zeroed();
        sa.sa_sigaction = libc::SIG_IGN;
        libc::sigaction(sig, &sa, std::ptr::null_mut());
    }
    let fds0 = open_fds();
    let inst = match SignalsInfo::<SignalOnly>::new(&[sig]) {
        Ok(i) => i,
        Err(_) => {
            e.line("refused");
            e.line("done");
            return;
        }
    };
    let w0 = crate::histex::counters::wakes();
    unsafe {
        libc::raise(sig);
    }
    let during = crate::histex::counters::wakes() - w0;
    drop(inst);
    let w1 = crate::histex::counters::wakes();
    unsafe {
        libc::raise(sig);
    }
    e.line(&format!("during={} after={} fds_left={}", during, crate::histex::counters::wakes() - w1, open_fds() as i64 - fds0 as i64));
    e.line("done");
}

fn child<E: Ex3>(hist: &[Step], e: &mut Emit) {
    counters::install();
    for (k, &s) in PROBE.iter().enumerate() {
        unsafe { signal_hook_registry::register(s, move || { FOREIGN[k].fetch_add(1, Ordering::SeqCst); }) }.unwrap();
    }
    // warm up /proc reading so that the fd baseline is stable
    let _ = open_fds();
    let base = open_fds();
    e.line(&format!("base_fds={}", base));
    let mut inst: Option<SignalsInfo<E>> = None;
    let mut handles: Vec<Handle> = Vec::new();
    for (k, st) in hist.iter().enumerate() {
        use std::panic::{catch_unwind, AssertUnwindSafe as A};
        let outcome: String = match st {
            Step::New(list) => {
                let r = catch_unwind(A(|| SignalsInfo::<E>::new(list)));
                match r {
                    Ok(Ok(i)) => {
                        inst = Some(i);
                        "ok".into()
                    }
                    Ok(Err(_)) => "err".into(),
                    Err(p) => format!("panic:{}", panic_msg(&p).chars().take(40).collect::<String>()),
                }
            }
            Step::Add(x) => {
                let r = catch_unwind(A(|| match (&inst, handles.last()) {
                    (Some(i), _) => i.add_signal(*x),
                    (None, Some(h)) => h.add_signal(*x),
                    _ => Ok(()),
                }));
                match r {
                    Ok(Ok(())) => "ok".into(),
                    Ok(Err(_)) => "err".into(),
                    Err(p) => format!("panic:{}", panic_msg(&p).chars().take(40).collect::<String>()),
                }
            }
            Step::CloneHandle => {
                if let Some(i) = &inst {
                    handles.push(i.handle());
                } else if let Some(h) = handles.last() {
                    let h2 = h.clone();
                    handles.push(h2);
                }
                "ok".into()
            }
            Step::DropHandle => {
                let r = catch_unwind(A(|| drop(handles.pop())));
                if r.is_ok() { "ok".into() } else { "panic:drop".into() }
            }
            Step::DropInstance => {
                let r = catch_unwind(A(|| drop(inst.take())));
                if r.is_ok() { "ok".into() } else { "panic:drop".into() }
            }
        };
        // probe
        let mut wakes = Vec::new();
        let mut foreign = Vec::new();
        for (pi, &s) in PROBE.iter().enumerate() {
            let w0 = counters::wakes();
            let f0 = FOREIGN[pi].load(Ordering::SeqCst);
            unsafe {
                libc::raise(s);
            }
            wakes.push((counters::wakes() - w0).to_string());
            foreign.push((FOREIGN[pi].load(Ordering::SeqCst) - f0).to_string());
        }
        let mut drained: Vec<i32> = Vec::new();
        if let Some(i) = inst.as_mut() {
            for o in i.pending() {
                drained.push(E::signo(&o));
            }
            // a second drain must come out empty (nothing reported twice)
            let again = i.pending().count();
            if again != 0 {
                drained.push(-1000);
            }
        }
        drained.sort();
        e.line(&format!("step {} outcome={} wakes={} foreign={} drained={:?} fds={}", k, outcome, wakes.join(","), foreign.join(","), drained, open_fds()));
    }
    e.line("done");
}

struct Model {
    alive: bool,
    handles: usize,
    watched: Vec<i32>,
}

/// Returns the expected (outcome class, wakes, drained, extra fds) after the step.
fn model_step(m: &mut Model, st: &Step) -> (String, Vec<u64>, Vec<i32>, usize) {
    let mut outcome = "ok".to_string();
    match st {
        Step::New(list) => {
            m.alive = true;
            for &x in list {
                let c = classify(x);
                if c == "ok" {
                    if !m.watched.contains(&x) {
                        m.watched.push(x);
                    }
                } else {
                    outcome = c.to_string();
                    m.alive = false;
                    m.watched.clear();
                    break;
                }
            }
        }
        Step::Add(x) => {
            if m.alive || m.handles > 0 {
                if (*x >= 0 && *x < 128) && m.watched.contains(x) {
                    // no-op
                } else {
                    let c = classify(*x);
                    if c == "ok" {
                        m.watched.push(*x);
                    } else {
                        outcome = c.to_string();
                    }
                }
            }
        }
        Step::CloneHandle => {
            if m.alive || m.handles > 0 {
                m.handles += 1;
            }
        }
        Step::DropHandle => {
            if m.handles > 0 {
                m.handles -= 1;
            }
        }
        Step::DropInstance => {
            m.alive = false;
        }
    }
    if !m.alive && m.handles == 0 {
        m.watched.clear();
    }
    let wakes: Vec<u64> = PROBE.iter().map(|s| m.watched.contains(s) as u64).collect();
    let mut drained: Vec<i32> = if m.alive { PROBE.iter().copied().filter(|s| m.watched.contains(s)).collect() } else { vec![] };
    drained.sort();
    // read end lives with the instance, write end with the instance, its handles and its actions
    let fds = (m.alive as usize) + ((m.alive || m.handles > 0) as usize);
    (outcome, wakes, drained, fds)
}

// ---------------------------------------------------------------------------------------------
// Schedules: add_signal of the same signal from two threads (through clones of one handle) while it
// is being delivered; afterwards exactly one registration exists, and none once everything is gone.

pub mod sched_part {
    use crate::props::reg::{fresh_registry, Disp, S1, S2};
    use crate::sched::{self, Exec, Opts, Scenario, ThreadSpec};
    use signal_hook::iterator::{Handle, Signals};
    use std::sync::{Arc, Mutex};

    pub struct St {
        inst: Mutex<Option<Signals>>,
        handle: Handle,
    }

    fn wakes_of_probe(e: &mut Exec, sig: i32) -> usize {
        let before = e.log.iter().filter(|x| x.tag == "wake").count();
        sched::setup_raise(sig);
        let e = sched::exec();
        e.log.iter().filter(|x| x.tag == "wake").count() - before
    }

    pub fn build(name: &'static str, drop_instance_concurrently: bool) -> Scenario<Arc<St>> {
        build_n(name, 2, drop_instance_concurrently, "C12")
    }

    /// `n` threads add the same signal through clones of one handle; messages carry `prefix`.
    pub fn build_n(name: &'static str, n: usize, drop_instance_concurrently: bool, prefix: &'static str) -> Scenario<Arc<St>> {
        let setup = || {
            fresh_registry(&[(S1, Disp::Ignore), (S2, Disp::Ignore)]);
            let s = Signals::new(&[S1]).expect("new");
            let h = s.handle();
            Arc::new(St { inst: Mutex::new(Some(s)), handle: h })
        };
        let adder = |name: &'static str| ThreadSpec {
            name,
            body: Box::new(move |s: &Arc<St>| {
                let h = s.handle.clone();
                h.add_signal(S2).expect("add_signal");
            }),
            nest_signals: vec![],
            max_nest: 0,
        };
        let mut threads = vec![adder("A1"), adder("A2")];
        for _ in 2..n {
            threads.push(adder("A3"));
        }
        threads.push(ThreadSpec {
            name: "D",
            body: Box::new(move |s: &Arc<St>| {
                sched::raise(S2);
                if drop_instance_concurrently {
                    let i = s.inst.lock().unwrap().take();
                    drop(i);
                }
            }),
            nest_signals: vec![],
            max_nest: 0,
        });
        Scenario {
            name: name.to_string(),
            opts: Opts { stale_reads: false, stale_depth: 2, max_spurious: 0, horizon: 20_000, log_ops: false, log_handler_ops: false, reduce: true, no_discipline: false, nest_value_t1: 0, post_points: false, no_race_check: false, start_points: false, endurance: 0 },
            signals: vec![S1, S2],
            setup: Box::new(setup),
            threads,
            finish: Box::new(move |s, e| {
                if !e.panics.is_empty() {
                    return Err(format!("{}: a thread panicked: {:?}", prefix, e.panics));
                }
                let w = wakes_of_probe(e, S2);
                if w != 1 {
                    return Err(format!("{}: after concurrent add_signal calls for the same signal a delivery of it makes {} wake attempts (exactly one registration expected: re-adding is a no-op)", prefix, w));
                }
                let s = Arc::try_unwrap(s).map_err(|_| "engine: state shared".to_string())?;
                drop(s);
                let e = sched::exec();
                let w = wakes_of_probe(e, S2);
                let w1 = wakes_of_probe(sched::exec(), S1);
                if w != 0 || w1 != 0 {
                    return Err(format!("{}: after the instance and all its handles are gone deliveries still make {} / {} wake attempts (a registration it made was not removed: its action still runs and what it captured is never released)", prefix, w1, w));
                }
                Ok(sched::exec().log.iter().filter(|x| x.tag == "wake").count() as u64)
            }),
            monitor: None,
        }
    }
}

pub fn run(tier: Tier) -> BResult {
    let depth = if tier == Tier::Quick { 3 } else { 4 };
    let bads = [libc::SIGKILL, -1, 200, 100];
    let mut hists: Vec<Vec<Step>> = Vec::new();
    // failing constructors: the rejected number first / in the middle / last
    for &b in &bads {
        hists.push(vec![Step::New(vec![b, libc::SIGUSR1])]);
        hists.push(vec![Step::New(vec![libc::SIGUSR1, b])]);
        hists.push(vec![Step::New(vec![libc::SIGUSR1, b, libc::SIGUSR2])]);
    }
    let ops = vec![Step::Add(libc::SIGUSR2), Step::Add(libc::SIGUSR1), Step::Add(libc::SIGSEGV), Step::Add(-1), Step::Add(128), Step::Add(100), Step::Add(0), Step::CloneHandle, Step::DropHandle, Step::DropInstance];
    for start in [vec![libc::SIGUSR1], vec![libc::SIGUSR1, libc::SIGWINCH, libc::SIGUSR1]] {
        let mut layer: Vec<Vec<Step>> = vec![vec![Step::New(start.clone())]];
        for _ in 0..depth {
            let mut next = Vec::new();
            for h in &layer {
                // once nothing is left (no instance, no handle) no operation applies
                let mut m = Model { alive: false, handles: 0, watched: vec![] };
                for st in h {
                    model_step(&mut m, st);
                }
                if !m.alive && m.handles == 0 {
                    continue;
                }
                for o in &ops {
                    if *o == Step::DropHandle && m.handles == 0 {
                        continue;
                    }
                    if *o == Step::DropInstance && !m.alive {
                        continue;
                    }
                    let mut n = h.clone();
                    n.push(o.clone());
                    next.push(n);
                }
            }
            hists.extend(next.iter().cloned());
            layer = next;
        }
    }
    // the full integer range for a single add_signal (and its immediate repetition)
    for x in sig_list() {
        hists.push(vec![Step::New(vec![libc::SIGUSR1]), Step::Add(x), Step::Add(x), Step::Add(libc::SIGUSR2)]);
    }
    // keep only maximal histories (a prefix is checked as part of its extensions) to save children
    let set: std::collections::HashSet<String> = hists.iter().map(|h| format!("{:?}", h)).collect();
    let mut maximal: Vec<Vec<Step>> = Vec::new();
    for h in &hists {
        let is_prefix_of_other = ops.iter().any(|o| {
            let mut n = h.clone();
            n.push(o.clone());
            set.contains(&format!("{:?}", n))
        });
        if !is_prefix_of_other {
            maximal.push(h.clone());
        }
    }
    let exn = ["SignalOnly", "WithRawSiginfo", "WithOrigin"];
    let mut cells: Vec<(usize, Vec<Step>)> = Vec::new();
    for ex in 0..3 {
        for h in &maximal {
            cells.push((ex, h.clone()));
        }
    }
    let cells2 = cells.clone();
    let probes = run_cells(cells.len(), 16, Duration::from_secs(30), move |i, e| {
        let (ex, h) = &cells2[i];
        match ex {
            0 => child::<SignalOnly>(h, e),
            1 => child::<WithRawSiginfo>(h, e),
            _ => child::<WithOrigin>(h, e),
        }
    });
    let mut violations = Vec::new();
    let mut samples = Vec::new();
    let mut classes: std::collections::BTreeMap<String, u64> = Default::default();
    let mut distinct = std::collections::HashSet::new();
    let mut transitions = 0u64;
    for (i, p) in probes.iter().enumerate() {
        let (ex, h) = &cells[i];
        transitions += h.len() as u64;
        let case = json!({"exfiltrator": exn[*ex], "history": h.iter().map(|s| format!("{:?}", s)).collect::<Vec<_>>()});
        let mut bad: Option<String> = None;
        let base: usize = p.find("base_fds=").and_then(|x| x.parse().ok()).unwrap_or(0);
        let mut m = Model { alive: false, handles: 0, watched: vec![] };
        for (k, st) in h.iter().enumerate() {
            let (o, w, d, fds) = model_step(&mut m, st);
            *classes.entry(format!("{}:{}", match st { Step::New(_) => "new", Step::Add(_) => "add_signal", Step::CloneHandle => "clone_handle", Step::DropHandle => "drop_handle", Step::DropInstance => "drop_instance" }, o)).or_insert(0) += 1;
            distinct.insert(format!("{:?}|{:?}|{}|{}", m.watched, d, m.alive, m.handles));
            let line = p.find(&format!("step {} ", k));
            let want = format!("outcome={} wakes={} foreign=1,1,1 drained={:?} fds={}", o, w.iter().map(|x| x.to_string()).collect::<Vec<_>>().join(","), d, base + fds);
            match line {
                None => {
                    bad = Some(format!("step {} ({:?}): the process {} (model: outcome {})", k, st, if p.fate == Fate::Signaled(6) { "aborted (SIGABRT)".to_string() } else { p.fate.describe() }, o));
                    break;
                }
                Some(l) => {
                    // compare field-wise (the panic message is free text)
                    let got_outcome = l.split_whitespace().next().unwrap_or("").trim_start_matches("outcome=").split(':').next().unwrap_or("").to_string();
                    let rest_got: String = l.splitn(2, " wakes=").nth(1).map(|x| x.to_string()).unwrap_or_default();
                    let rest_got = if l.contains("outcome=panic") { l[l.find(" wakes=").unwrap_or(0)..].trim_start_matches(" wakes=").to_string() } else { rest_got };
                    let rest_want: String = want.splitn(2, " wakes=").nth(1).unwrap().to_string();
                    if got_outcome != o {
                        bad = Some(format!("step {} ({:?}): outcome {} but the model says {}", k, st, l.split_whitespace().next().unwrap_or(""), o));
                        break;
                    }
                    if rest_got != rest_want {
                        bad = Some(format!("step {} ({:?}): observed [wakes={}] but the model says [wakes={}] (wake attempts per probe signal USR1,USR2,WINCH / foreign actions fired / drained / open descriptors)", k, st, rest_got, rest_want));
                        break;
                    }
                }
            }
        }
        if bad.is_none() && (p.fate != Fate::Exited(0) || !p.has("done")) {
            bad = Some(format!("the process {} at the end of the history", p.fate.describe()));
        }
        if samples.len() < 4 && i % 409 == 0 {
            samples.push(json!({"case": case, "reported": p.lines}));
        }
        if let Some(mm) = bad {
            violations.push(BViolation { message: format!("C12: {} {:?}: {}", exn[*ex], h, mm), case });
        }
    }
    // re-adding a watched signal while deliveries of it are still uncollected
    let mut rcells: Vec<(usize, usize, bool)> = Vec::new();
    for ex in 0..3 {
        for k in [1usize, 3, 7] {
            for between in [false, true] {
                rcells.push((ex, k, between));
            }
        }
    }
    let rc2 = rcells.clone();
    let rprobes = run_cells(rcells.len(), 16, Duration::from_secs(30), move |i, e| {
        let (ex, k, b) = rc2[i];
        match ex {
            0 => readd_child::<SignalOnly>(k, b, e),
            1 => readd_child::<WithRawSiginfo>(k, b, e),
            _ => readd_child::<WithOrigin>(k, b, e),
        }
    });
    for (i, p) in rprobes.iter().enumerate() {
        let (ex, k, between) = rcells[i];
        transitions += 4;
        let want = if ex == 0 { 1 } else { k.min(5) };
        let case = json!({"exfiltrator": exn[ex], "history": format!("new([USR1]); {} deliveries; {}add_signal(USR1) again; read", k, if between { "two refused additions; " } else { "" })});
        *classes.entry("re-add with uncollected deliveries".into()).or_insert(0) += 1;
        let bad = if p.fate != Fate::Exited(0) || !p.has("done") {
            Some(format!("the process {} (last: {:?})", p.fate.describe(), p.lines.last()))
        } else if p.find("readd=") != Some("ok") {
            Some("re-adding the watched signal did not return Ok".to_string())
        } else if p.find("collected=") != Some(&want.to_string()) {
            Some(format!("after {} deliveries and the re-addition the consumer collects {} records (expected {}: re-adding is a no-op)", k, p.find("collected=").unwrap_or("?"), want))
        } else if p.find("next=") != Some("1") {
            Some(format!("one more delivery afterwards yields {} records", p.find("next=").unwrap_or("?")))
        } else {
            None
        };
        if let Some(m) = bad {
            violations.push(BViolation { message: format!("C12: {} / {}: {}", exn[ex], case["history"].as_str().unwrap_or(""), m), case });
        }
    }
    // every signal number an instance can watch
    let nums: Vec<i32> = (1..=64).filter(|s| !forbidden(*s) && *s != 32 && *s != 33).collect();
    let nums2 = nums.clone();
    let nprobes = run_cells(nums.len(), 16, Duration::from_secs(20), move |i, e| every_number_child(nums2[i], e));
    for (i, p) in nprobes.iter().enumerate() {
        transitions += 3;
        *classes.entry("one instance per signal number".into()).or_insert(0) += 1;
        if p.has("refused") {
            continue;
        }
        if p.fate != Fate::Exited(0) || p.find("during=") != Some("1 after=0 fds_left=0") {
            violations.push(BViolation { message: format!("C12: an instance watching signal {}: observed {:?} (the process {}); expected one wake attempt while it lives, none after it is gone, no descriptor left", nums[i], p.lines, p.fate.describe()), case: json!({"history": "new([n]); deliver; drop; deliver", "signal": nums[i]}) });
        }
    }
    // schedules (engine A)
    let mut a_states = 0u64;
    let mut a_trans = 0u64;
    let mut a_execs = 0u64;
    let mut a_caps = Vec::new();
    for (name, conc_drop) in [("two_threads_add_same_signal", false), ("two_threads_add_same_signal_instance_dropped", true)] {
        let sc = sched_part::build(name, conc_drop);
        let cfg = crate::explore::Config { property: "C12".into(), bound: Some(if tier == Tier::Quick { 2 } else { 3 }), max_wall: Duration::from_secs(if tier == Tier::Quick { 25 } else { 300 }), workers: crate::props::workers_for(4), hang_secs: 30 };
        match crate::explore::explore(&sc, &cfg) {
            Ok(sum) => {
                eprintln!("[C12] schedules {:<44} bound={:?} execs={} states={} steps={} distinct={}{}", name, cfg.bound, sum.stats.executions, sum.stats.states, sum.stats.transitions, sum.stats.digests.len(), if sum.stats.capped { " CAPPED" } else { "" });
                a_states += sum.stats.states;
                a_trans += sum.stats.transitions;
                a_execs += sum.stats.executions;
                if sum.stats.capped {
                    a_caps.push(json!({"scenario": name, "cap": "wall-clock"}));
                }
                *classes.entry(format!("schedules:{}", name)).or_insert(0) += sum.stats.executions;
                for v in sum.violations {
                    if crate::explore::class_of(&v.message) == "engine" {
                        violations.push(BViolation { message: format!("engine: {}", v.message), case: json!({"scenario": name}) });
                    } else {
                        violations.push(BViolation { message: format!("{} [schedule replay: {}]", v.message, v.replay), case: json!({"scenario": name, "engine": "sigsched", "choices": v.choices}) });
                    }
                }
            }
            Err(er) => violations.push(BViolation { message: format!("engine: {}", er), case: json!({"scenario": name}) }),
        }
    }
    let exhaustive = a_caps.is_empty();
    BResult {
        states: distinct.len() as u64 + a_states,
        transitions: transitions + a_trans,
        evaluations: cells.len() as u64 + a_execs,
        distinct: distinct.len() as u64,
        samples,
        per_class: json!(classes),
        violations,
        exhaustive,
        caps: a_caps,
        rule: format!("schedules: two threads add the same signal through clones of one handle while it is delivered (and the instance is dropped), every choice vector within the deviation bound on the real code; histories: every history new(list) + up to {} operations over {{add_signal(ok new / already watched / forbidden / negative / too large / OS-refused 100 / 0), clone handle, drop handle, drop instance}} from two successful constructors (one lists a signal twice), 12 failing constructor lists (rejected number first / middle / last), and add_signal(x), add_signal(x) again for every x in [-2,130]+MIN/MAX; x 3 exfiltrators; one instance per watchable signal number 1..64 (deliver, drop, deliver); re-adding a watched signal with 1 / 3 / 7 uncollected deliveries of it (with and without refused additions in between) x 3 exfiltrators; a probe after every step; reference model = {{instance alive, handle count, watched set}}; distinct = distinct model states reached", depth),
        assumptions: vec!["wake attempts per delivery counted through the cfg(sighook_verif) scheduling point in pipe::wake".into(), "open descriptors counted through /proc/self/fd".into()],
    }
}
