//! C03, the part that cannot run inside the scheduler's worker: built-in actions that end the process.
//! A conditional shutdown armed with an exit status outside 0..=255 is still a plain `_exit`: the
//! delivery must not panic (a panic inside the handler aborts the process). One forked child per cell.
#![allow(clippy::all)]
use super::*;
use crate::histex::{run_cells, BResult, BViolation, Emit, Fate};
use serde_json::json;
use std::sync::atomic::AtomicBool;
use std::sync::Arc;
use std::time::Duration;

static HOOK_FD: std::sync::atomic::AtomicI32 = std::sync::atomic::AtomicI32::new(-1);

extern "C" fn exit_hook() {
    let m = b"atexit-ran\n";
    unsafe {
        libc::write(HOOK_FD.load(std::sync::atomic::Ordering::SeqCst), m.as_ptr() as *const _, m.len());
    }
}

const ENV_BASE: i32 = 1 << 20;

fn cell(sig: i32, status: i32, armed: bool, e: &mut Emit) {
    if sig == 0 {
        // two pipe registrations sharing one open file description, one of them gone, the pipe full
        return super::c13::shared_cell(super::c13::Kind::Pipe, status as usize, e);
    }
    if status >= ENV_BASE {
        // the standard descriptors in a state in which a write kills or blocks the process
        super::c15::std_fd_env((status - ENV_BASE) as u8);
    }
    HOOK_FD.store(e.fd(), std::sync::atomic::Ordering::SeqCst);
    unsafe {
        libc::atexit(exit_hook);
        let rl = libc::rlimit { rlim_cur: 0, rlim_max: 0 };
        libc::setrlimit(libc::RLIMIT_CORE, &rl);
    }
    let cond = Arc::new(AtomicBool::new(armed));
    signal_hook::flag::register_conditional_shutdown(sig, status, cond).unwrap();
    e.line("registered");
    unsafe {
        libc::raise(sig);
    }
    e.line("survived");
    // leave without running exit-time hooks: "atexit-ran" can then only come from the delivery
    unsafe {
        libc::_exit(0);
    }
}

pub fn run(_tier: Tier) -> BResult {
    let statuses = [-1i32, -255, -256, 256, 257, 511, 1000, 65536, i32::MIN, i32::MAX, 0, 255];
    let mut cells: Vec<(i32, i32, bool)> = Vec::new();
    for &sig in signal_hook::consts::TERM_SIGNALS {
        for &st in &statuses {
            cells.push((sig, st, true));
        }
        cells.push((sig, 300, false));
        for env in 3..=6 {
            cells.push((sig, ENV_BASE + env, true));
        }
    }
    for v in 0..5 {
        cells.push((0, v, true));
    }
    let c2 = cells.clone();
    let probes = run_cells(cells.len(), 16, Duration::from_secs(20), move |i, e| cell(c2[i].0, c2[i].1, c2[i].2, e));
    let mut violations = Vec::new();
    let mut distinct = std::collections::HashSet::new();
    for (i, p) in probes.iter().enumerate() {
        let (sig, st, armed) = cells[i];
        let case = json!({"grid": "conditional shutdown with an out-of-range status", "signal": sig, "status": st, "armed": armed});
        distinct.insert((p.fate.describe(), armed));
        if sig == 0 {
            let case = json!({"grid": "two self-pipe registrations share one open file description (dup'ed write ends); one is removed or refused; the pipe is completely full; the other one's signal is delivered", "history": st});
            if p.fate == Fate::TimedOut {
                violations.push(BViolation { message: format!("C03: handler frame does not finish: the wake write into the full self-pipe blocked (shared-description history {}, after {} deliveries)", st, p.all("delivered ").len()), case });
            } else if p.fate != Fate::Exited(0) {
                violations.push(BViolation { message: format!("C03: shared-description history {}: child {}", st, p.fate.describe()), case });
            }
            continue;
        }
        let bad = if !armed {
            if p.fate != Fate::Exited(0) || !p.has("survived") { Some(format!("not armed, but the process {}", p.fate.describe())) } else { None }
        } else if p.has("atexit-ran") {
            Some("exit-time hooks ran inside the signal handler (exit instead of _exit: not async-signal-safe, unbounded)".to_string())
        } else if p.fate == Fate::TimedOut {
            Some("handler frame does not finish: the delivery blocked (a write to a standard descriptor that is a full pipe?)".to_string())
        } else if p.fate != Fate::Exited(st & 0xff) {
            Some(format!("the delivery must end the process with exit status {} (the low 8 bits of {}), but it {}{}", st & 0xff, st, p.fate.describe(), if p.fate == Fate::Signaled(libc::SIGABRT) { " - a panic inside the signal handler" } else { "" }))
        } else {
            None
        };
        if let Some(m) = bad {
            violations.push(BViolation { message: format!("C03: conditional shutdown on signal {} armed with status {}: {}", sig, st, m), case });
        }
    }
    BResult {
        states: cells.len() as u64,
        transitions: cells.len() as u64,
        evaluations: cells.len() as u64,
        distinct: distinct.len() as u64,
        samples: vec![],
        per_class: json!({}),
        violations,
        exhaustive: true,
        caps: vec![],
        rule: "termination signals x exit statuses {-1,-255,-256,256,257,511,1000,65536,MIN,MAX,0,255} armed (+ one not armed): the delivery ends the process by _exit with the low 8 bits, never by a panic, and without running exit-time hooks inside the handler (an atexit hook is registered in every cell); the same with standard error / output being a pipe without a reader or a full blocking pipe; 5 histories of two pipe registrations sharing one open file description (one removed or refused, the pipe completely full, the other's signal delivered): the delivery returns".into(),
        assumptions: vec![],
    }
}
