//! C09 / C10 / C11, the part that needs a second process: an iterator instance that was created before a
//! `fork` and is used by the child (the usual daemonize order: set the signal handling up, then fork).
//! Nothing in the statements ties an instance to the process that created it: in the child a delivery
//! must still be stored, woken for and handed out, and `close()` must still unblock a blocked consumer.
//! One forked child per cell; the cell forks once more and the grandchild is the process under test.
#![allow(clippy::all)]
use super::*;
use crate::histex::{run_cells, BResult, BViolation, Emit, Fate};
use serde_json::json;
use signal_hook::iterator::exfiltrator::{SignalOnly, WithRawSiginfo};
use signal_hook::iterator::{Signals, SignalsInfo};
use std::time::Duration;

const SIG: i32 = libc::SIGUSR1;
const CONSUMERS: [&str; 4] = ["wait()", "forever().next()", "pending() polled", "handle.close() while a thread is blocked in wait()"];
const EXF: [&str; 2] = ["SignalOnly", "WithRawSiginfo"];

/// Runs in the grandchild. Exit status: 0 = as required; 3 = wrong result; killed by SIGALRM = blocked.
fn under_test_sigonly(consumer: usize, mut s: Signals) -> i32 {
    match consumer {
        0 => {
            unsafe { libc::raise(SIG) };
            let got: Vec<i32> = s.wait().collect();
            if got == vec![SIG] { 0 } else { 3 }
        }
        1 => {
            unsafe { libc::raise(SIG) };
            if s.forever().next() == Some(SIG) { 0 } else { 3 }
        }
        2 => {
            unsafe { libc::raise(SIG) };
            for _ in 0..200 {
                if s.pending().next() == Some(SIG) {
                    return 0;
                }
                std::thread::sleep(Duration::from_millis(5));
            }
            3
        }
        _ => {
            let h = s.handle();
            let t = std::thread::spawn(move || {
                let n = s.wait().count();
                let closed = s.is_closed();
                let ended = s.forever().next().is_none();
                (n, closed, ended)
            });
            std::thread::sleep(Duration::from_millis(100));
            h.close();
            match t.join() {
                Ok((0, true, true)) => 0,
                _ => 3,
            }
        }
    }
}

fn under_test_raw(consumer: usize, mut s: SignalsInfo<WithRawSiginfo>) -> i32 {
    let is = |x: Option<libc::siginfo_t>| x.map(|i| i.si_signo) == Some(SIG);
    match consumer {
        0 => {
            unsafe { libc::raise(SIG) };
            let got: Vec<libc::siginfo_t> = s.wait().collect();
            if got.len() == 1 && got[0].si_signo == SIG { 0 } else { 3 }
        }
        1 => {
            unsafe { libc::raise(SIG) };
            if is(s.forever().next()) { 0 } else { 3 }
        }
        2 => {
            unsafe { libc::raise(SIG) };
            for _ in 0..200 {
                if is(s.pending().next()) {
                    return 0;
                }
                std::thread::sleep(Duration::from_millis(5));
            }
            3
        }
        _ => {
            let h = s.handle();
            let t = std::thread::spawn(move || {
                let n = s.wait().count();
                let closed = s.is_closed();
                let ended = s.forever().next().is_none();
                (n, closed, ended)
            });
            std::thread::sleep(Duration::from_millis(100));
            h.close();
            match t.join() {
                Ok((0, true, true)) => 0,
                _ => 3,
            }
        }
    }
}

/// C10, sequential: several `Pending` batches of one instance alive at once on one thread. `take_first`
/// records are taken from the first batch, one more delivery is queued, a second batch is consumed
/// completely, then the rest of the first: the records of the one signal come out in delivery order.
fn overlapping_batches(take_first: usize, e: &mut Emit) {
    let mut s = SignalsInfo::<WithRawSiginfo>::new(&[SIG]).expect("new");
    extern "C" {
        fn sigqueue(pid: libc::pid_t, sig: libc::c_int, value: libc::sigval) -> libc::c_int;
    }
    let q = |v: usize| unsafe {
        sigqueue(libc::getpid(), SIG, libc::sigval { sival_ptr: v as *mut libc::c_void });
    };
    let val = |i: libc::siginfo_t| unsafe { i.si_value().sival_ptr as usize };
    for v in 1..=3 {
        q(v);
    }
    let mut order: Vec<usize> = Vec::new();
    let mut p1 = s.pending();
    for _ in 0..take_first {
        if let Some(i) = p1.next() {
            order.push(val(i));
        }
    }
    q(4);
    let p2 = s.pending();
    order.extend(p2.map(val));
    order.extend(p1.map(val));
    let p3 = s.pending();
    order.extend(p3.map(val));
    e.line(&format!("order={:?}", order));
}

fn cell(exf: usize, consumer: usize, in_child: bool, e: &mut Emit) {
    if exf == 9 {
        return overlapping_batches(consumer, e);
    }
    // the instance is created here, before the fork
    let a = if exf == 0 { Some(Signals::new(&[SIG]).expect("new")) } else { None };
    let b = if exf == 1 { Some(SignalsInfo::<WithRawSiginfo>::new(&[SIG]).expect("new")) } else { None };
    let _ = SignalOnly::default();
    e.line("created");
    let run = move || -> i32 {
        unsafe { libc::alarm(5) };
        match (a, b) {
            (Some(s), _) => under_test_sigonly(consumer, s),
            (_, Some(s)) => under_test_raw(consumer, s),
            _ => 3,
        }
    };
    if !in_child {
        // control: the same in the creating process
        let r = run();
        e.line(&format!("result exited({})", r));
        return;
    }
    let pid = unsafe { libc::fork() };
    if pid == 0 {
        let r = run();
        unsafe { libc::_exit(r) };
    }
    let mut st = 0i32;
    unsafe { libc::waitpid(pid, &mut st, 0) };
    if libc::WIFEXITED(st) {
        e.line(&format!("result exited({})", libc::WEXITSTATUS(st)));
    } else if libc::WIFSIGNALED(st) {
        e.line(&format!("result signaled({})", libc::WTERMSIG(st)));
    } else {
        e.line("result ?");
    }
}

pub fn run(prop: &str, _tier: Tier) -> BResult {
    // (exfiltrator, consumer, in the forked child?)
    let mut cells: Vec<(usize, usize, bool)> = Vec::new();
    for x in 0..2 {
        for c in 0..4 {
            let mine = match prop {
                "C11" => c == 3,
                _ => c < 3,
            };
            if mine {
                cells.push((x, c, true));
                cells.push((x, c, false));
            }
        }
    }
    if prop == "C10" {
        for k in 0..=3 {
            cells.push((9, k, false));
        }
    }
    let c2 = cells.clone();
    let probes = run_cells(cells.len(), 8, Duration::from_secs(20), move |i, e| cell(c2[i].0, c2[i].1, c2[i].2, e));
    let mut violations = Vec::new();
    let mut distinct = std::collections::HashSet::new();
    for (i, p) in probes.iter().enumerate() {
        let (x, c, forked) = cells[i];
        if x == 9 {
            let case = json!({"grid": "two batches from pending() alive at once on one thread", "taken_from_the_first_batch_before_the_next_delivery": c});
            let got = p.find("order=").unwrap_or("-").to_string();
            distinct.insert((x, c, forked, got.clone()));
            if p.fate != Fate::Exited(0) {
                violations.push(BViolation { message: format!("C10: overlapping batches: probe process {}", p.fate.describe()), case });
            } else if got != "[1, 2, 3, 4]" {
                violations.push(BViolation { message: format!("C10: WithRawSiginfo, deliveries 1,2,3 queued, {} taken from a first pending() batch, delivery 4, a second batch consumed, then the rest of the first: records came out as {} (must be each delivery once, in delivery order)", c, got), case });
            }
            continue;
        }
        let case = json!({"grid": "instance created before a fork", "exfiltrator": EXF[x], "consumer": CONSUMERS[c], "used_in": if forked { "the forked child" } else { "the creating process (control)" }});
        let res = p.find("result ").unwrap_or("-").to_string();
        distinct.insert((x, c, forked, res.clone()));
        let bad = if p.fate != Fate::Exited(0) && !(p.fate == Fate::Signaled(libc::SIGALRM) && !forked) {
            Some(format!("probe process {}", p.fate.describe()))
        } else if (p.fate == Fate::Signaled(libc::SIGALRM) && !forked) || res == format!("signaled({})", libc::SIGALRM) {
            Some(if c == 3 { "the consumer blocked in wait() was not unblocked by close() within 5 s (no wake-up)".to_string() } else { "the delivered signal was stored but the consumer stayed blocked for 5 s (no wake-up was written)".to_string() })
        } else if res != "exited(0)" {
            Some(format!("the consumer did not get what it must: {}", res))
        } else {
            None
        };
        if let Some(m) = bad {
            violations.push(BViolation { message: format!("{}: iterator instance ({}) created before fork(), used in {} through {}: {}", prop, EXF[x], if forked { "the child" } else { "the creating process" }, CONSUMERS[c], m), case });
        }
    }
    BResult {
        states: cells.len() as u64,
        transitions: cells.len() as u64 * 3,
        evaluations: cells.len() as u64,
        distinct: distinct.len() as u64,
        samples: vec![],
        per_class: json!({}),
        violations,
        exhaustive: true,
        caps: vec![],
        rule: "fork grid: exfiltrator {SignalOnly, WithRawSiginfo} x consumer {wait, forever, polled pending | close() against a blocked wait()} x {used in a forked child, control in the creating process}: the instance is created before fork(); in the process that uses it a delivery is handed out / close() unblocks the consumer, ends forever() and is_closed() is true, within a 5 s watchdog; for C10 also 4 sequential cells: deliveries 1,2,3 queued with a payload, k in 0..=3 records taken from a first pending() batch, delivery 4, a second batch consumed completely, then the rest of the first - every record once, in delivery order".into(),
        assumptions: vec!["the forked child is single-threaded at the fork and starts its own threads afterwards".into()],
    }
}
