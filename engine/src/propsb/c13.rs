//! C13: self-pipe wake: one non-blocking byte per delivery; the descriptor is owned and closed once.
#![allow(clippy::all)]
use super::*;
use crate::histex::{counters, run_cells, BResult, BViolation, Emit, Fate};
use serde_json::json;
use std::time::Duration;

const SIG: i32 = libc::SIGUSR1;

#[derive(Clone, Copy, Debug, PartialEq)]
pub(crate) enum Kind {
    Pipe,
    Stream,
    Dgram,
}

/// Returns (read end, write end).
fn make(kind: Kind) -> (i32, i32) {
    let mut fds = [0i32; 2];
    unsafe {
        match kind {
            Kind::Pipe => {
                libc::pipe(fds.as_mut_ptr());
                libc::fcntl(fds[1], libc::F_SETPIPE_SZ, 8192);
            }
            Kind::Stream => {
                libc::socketpair(libc::AF_UNIX, libc::SOCK_STREAM, 0, fds.as_mut_ptr());
            }
            Kind::Dgram => {
                libc::socketpair(libc::AF_UNIX, libc::SOCK_DGRAM, 0, fds.as_mut_ptr());
            }
        }
    }
    (fds[0], fds[1])
}

fn set_nonblock(fd: i32, on: bool) {
    unsafe {
        let fl = libc::fcntl(fd, libc::F_GETFL);
        libc::fcntl(fd, libc::F_SETFL, if on { fl | libc::O_NONBLOCK } else { fl & !libc::O_NONBLOCK });
    }
}

/// Fill the write side through a dup; returns the number of units (bytes / datagrams) written.
/// `leave` units are left free.
fn fill(kind: Kind, w: i32, r: i32, leave: usize) -> usize {
    let d = unsafe { libc::dup(w) };
    set_nonblock(d, true);
    let mut n = 0usize;
    let b = [0x55u8; 1];
    loop {
        let k = unsafe { libc::write(d, b.as_ptr() as *const _, 1) };
        if k <= 0 {
            break;
        }
        n += 1;
        if n > 4_000_000 {
            break;
        }
    }
    // make room again: a whole page of a pipe, two datagrams (the library's own zero-length probe
    // may take one), a good part of a stream socket's buffer (space is accounted per buffer)
    set_nonblock(r, true);
    if leave > 0 {
        match kind {
            Kind::Pipe => {
                let mut x = [0u8; 4096];
                let k = unsafe { libc::read(r, x.as_mut_ptr() as *mut _, 4096) };
                if k > 0 {
                    n -= k as usize;
                }
            }
            Kind::Dgram => {
                for _ in 0..2 {
                    let mut x = [0u8; 8];
                    if unsafe { libc::read(r, x.as_mut_ptr() as *mut _, 8) } > 0 {
                        n -= 1;
                    }
                }
            }
            Kind::Stream => {
                let mut x = [0u8; 4096];
                for _ in 0..(n / 4096 / 2).max(1) {
                    let k = unsafe { libc::read(r, x.as_mut_ptr() as *mut _, 4096) };
                    if k > 0 {
                        n -= k as usize;
                    }
                }
            }
        }
    }
    set_nonblock(d, false);
    unsafe {
        libc::close(d);
    }
    // O_NONBLOCK is a file-status flag shared with `w`: the library must set what it needs itself
    set_nonblock(w, false);
    n
}

/// Count what can be read: (units of the wake byte 'X', fill units, empty datagrams)
fn drain(kind: Kind, r: i32) -> (usize, usize, usize) {
    set_nonblock(r, true);
    let (mut x, mut f, mut z) = (0, 0, 0);
    loop {
        let mut b = [0u8; 4096];
        let k = unsafe { libc::read(r, b.as_mut_ptr() as *mut _, if kind == Kind::Dgram { 16 } else { 4096 }) };
        if k < 0 {
            break;
        }
        if k == 0 {
            if kind == Kind::Dgram {
                z += 1;
                continue;
            }
            break;
        }
        for &c in &b[..k as usize] {
            if c == b'X' {
                x += 1;
            } else {
                f += 1;
            }
        }
    }
    (x, f, z)
}

fn wake_cell(kind: Kind, fill_mode: usize, burst: usize, raw: bool, e: &mut Emit) {
    counters::install();
    let (r, w) = make(kind);
    let filled = match fill_mode {
        0 => 0,
        1 => fill(kind, w, r, 1),
        _ => fill(kind, w, r, 0),
    };
    e.line(&format!("filled={}", filled));
    let id = if raw {
        signal_hook::low_level::pipe::register_raw(SIG, w)
    } else {
        struct Owned(i32);
        impl std::os::unix::io::IntoRawFd for Owned {
            fn into_raw_fd(self) -> i32 {
                self.0
            }
        }
        signal_hook::low_level::pipe::register(SIG, Owned(w))
    };
    let id = match id {
        Ok(i) => i,
        Err(er) => {
            e.line(&format!("register-failed {}", er));
            return;
        }
    };
    for k in 0..burst {
        unsafe {
            libc::raise(SIG);
        }
        e.line(&format!("delivered {}", k));
    }
    e.line(&format!("wakes={}", counters::wakes()));
    let (x, f, z) = drain(kind, r);
    e.line(&format!("drained x={} fill={} empty={}", x, f, z));
    // a second round after draining: at least one byte must arrive for one more delivery
    unsafe {
        libc::raise(SIG);
    }
    let (x2, _, _) = drain(kind, r);
    e.line(&format!("second x={}", x2));
    signal_hook::low_level::unregister(id);
    e.line(&format!("closed_after_unregister={}", !fd_open(w) as u8));
    e.line("done");
}

/// The iterator's own self-pipe: a burst far longer than its buffer, nobody draining.
fn iterator_burst(n: usize, e: &mut Emit) {
    counters::install();
    let mut s = signal_hook::iterator::Signals::new(&[SIG]).unwrap();
    for k in 0..n {
        unsafe {
            libc::raise(SIG);
        }
        if k % 500 == 0 {
            e.line(&format!("delivered {}", k));
        }
    }
    e.line(&format!("wakes={}", counters::wakes()));
    let got: Vec<i32> = s.pending().collect();
    e.line(&format!("pending={:?}", got));
    unsafe {
        libc::raise(SIG);
    }
    let got2: Vec<i32> = s.wait().collect();
    e.line(&format!("wait_after_drain={:?}", got2));
    e.line("done");
}

/// Two registrations share one open file description through `dup`ed write ends (what the module
/// documentation recommends for several signals on one pipe). One of them goes away (removed, or
/// refused), the pipe is filled completely, then the remaining one's signal is delivered: the
/// delivery returns, makes one wake attempt, and after draining one more delivery gives one byte.
pub(crate) fn shared_cell(kind: Kind, variant: usize, e: &mut Emit) {
    counters::install();
    let (r, w) = make(kind);
    let w2 = unsafe { libc::dup(w) };
    let other = libc::SIGUSR2;
    let (live_sig, live_id);
    match variant {
        0 => {
            // both registered, the first one removed
            let a = signal_hook::low_level::pipe::register_raw(SIG, w).unwrap();
            let b = signal_hook::low_level::pipe::register_raw(other, w2).unwrap();
            signal_hook::low_level::unregister(a);
            live_sig = other;
            live_id = b;
        }
        1 => {
            // both registered, the second one removed
            let a = signal_hook::low_level::pipe::register_raw(SIG, w).unwrap();
            let b = signal_hook::low_level::pipe::register_raw(other, w2).unwrap();
            signal_hook::low_level::unregister(b);
            live_sig = SIG;
            live_id = a;
        }
        2 => {
            // one registered, a registration of the dup refused by the OS
            let a = signal_hook::low_level::pipe::register_raw(SIG, w).unwrap();
            let p = signal_hook::low_level::pipe::register_raw(100, w2);
            e.line(&format!("refused={}", p.is_err() as u8));
            live_sig = SIG;
            live_id = a;
        }
        3 => {
            // one registered, a registration of the dup refused by panic (forbidden signal)
            let a = signal_hook::low_level::pipe::register_raw(SIG, w).unwrap();
            let p = std::panic::catch_unwind(|| signal_hook::low_level::pipe::register_raw(libc::SIGKILL, w2));
            e.line(&format!("refused={}", p.is_err() as u8));
            live_sig = SIG;
            live_id = a;
        }
        _ => {
            // both registered for the same signal, the first removed: one action left
            let a = signal_hook::low_level::pipe::register_raw(SIG, w).unwrap();
            let b = signal_hook::low_level::pipe::register_raw(SIG, w2).unwrap();
            signal_hook::low_level::unregister(a);
            live_sig = SIG;
            live_id = b;
        }
    }
    // fill() switches the (shared) description to non-blocking and back to blocking; what the library
    // had set on it at registration is put back afterwards - the harness must not be what clears it
    let live_w = if variant == 0 || variant >= 4 { w2 } else { w };
    let fl = unsafe { libc::fcntl(live_w, libc::F_GETFL, 0) };
    let filled = fill(kind, live_w, r, 0);
    unsafe {
        libc::fcntl(live_w, libc::F_SETFL, fl);
    }
    e.line(&format!("filled={} flags_nonblocking={}", filled, (fl & libc::O_NONBLOCK != 0) as u8));
    let w0 = counters::wakes();
    for k in 0..2 {
        unsafe {
            libc::raise(live_sig);
        }
        e.line(&format!("delivered {}", k));
    }
    e.line(&format!("wakes={}", counters::wakes() - w0));
    let _ = drain(kind, r);
    unsafe {
        libc::raise(live_sig);
    }
    let (x2, _, _) = drain(kind, r);
    e.line(&format!("second x={}", x2));
    signal_hook::low_level::unregister(live_id);
    e.line(&format!("closed={}", (!fd_open(w) && !fd_open(w2)) as u8));
    e.line("done");
}

/// Ownership histories. `variant`: which history.
fn own_cell(kind: Kind, variant: usize, e: &mut Emit) {
    counters::install();
    let (r, w) = make(kind);
    let devnull = unsafe { libc::open(b"/dev/null\0".as_ptr() as *const _, libc::O_WRONLY) };
    let sentinel_on = |num: i32| -> bool {
        // put a sentinel (a pipe's write end) on the number `num`; true if it landed there
        let (_sr, sw) = make(Kind::Pipe);
        let d = unsafe { libc::dup2(sw, num) };
        unsafe {
            libc::close(sw);
        }
        d == num
    };
    let outcome: String;
    let closes0 = close_count(w);
    match variant {
        0 => {
            // register, deliver, unregister
            let id = signal_hook::low_level::pipe::register_raw(SIG, w).unwrap();
            unsafe {
                libc::raise(SIG);
            }
            signal_hook::low_level::unregister(id);
            outcome = "unregistered".into();
        }
        1 => {
            // rejected: forbidden signal (panic)
            let p = std::panic::catch_unwind(|| signal_hook::low_level::pipe::register_raw(libc::SIGKILL, w));
            outcome = format!("forbidden:{}", if p.is_err() { "panic" } else { "no-panic" });
        }
        2 => {
            // rejected: kernel refuses the number
            let p = signal_hook::low_level::pipe::register_raw(100, w);
            outcome = format!("refused:{}", if p.is_err() { "err" } else { "ok" });
        }
        3 => {
            // invalid descriptor -1
            let p = std::panic::catch_unwind(|| signal_hook::low_level::pipe::register_raw(SIG, -1));
            outcome = format!("fd-1:{}", match p { Ok(Ok(_)) => "ok", Ok(Err(_)) => "err", Err(_) => "panic" });
            unsafe {
                libc::close(w);
            }
        }
        _ => {
            // a closed number
            unsafe {
                libc::close(w);
            }
            let p = std::panic::catch_unwind(|| signal_hook::low_level::pipe::register_raw(SIG, w));
            outcome = format!("closed-number:{}", match p { Ok(Ok(_)) => "ok", Ok(Err(_)) => "err", Err(_) => "panic" });
        }
    }
    e.line(&format!("outcome={}", outcome));
    e.line(&format!("closed={}", !fd_open(w) as u8));
    e.line(&format!("close_calls={}", close_count(w) - closes0));
    // the number is free now: occupy it with a sentinel and keep using the library
    let placed = sentinel_on(w);
    e.line(&format!("sentinel_placed={}", placed as u8));
    let (r2, w2) = make(kind);
    let id2 = signal_hook::low_level::pipe::register_raw(SIG, w2).unwrap();
    let w0 = counters::wakes();
    unsafe {
        libc::raise(SIG);
        libc::raise(SIG);
    }
    e.line(&format!("later_wakes={}", counters::wakes() - w0));
    signal_hook::low_level::unregister(id2);
    e.line(&format!("sentinel_open={}", fd_open(w) as u8));
    // nothing may have been written to the sentinel: its read end is gone, so check via the other pipe only
    let (x, _, _) = drain(kind, r2);
    e.line(&format!("second_pipe_x={}", x));
    let _ = (r, devnull);
    e.line("done");
}

// ---------------------------------------------------------------------------------------------
// Schedules: the owners of a self-pipe go away (action removed, instance and last handle dropped)
// while the signal keeps being delivered, from another thread and nested at every operation boundary
// of the teardown. The engine-wide monitor judges every wake attempt: its descriptor must be open.

mod sched_part {
    use crate::props::reg::{fresh_registry, Disp, S1, S2};
    use crate::sched::{self, Opts, Scenario, ThreadSpec};
    use signal_hook::iterator::{Handle, Signals};
    use std::sync::{Arc, Mutex};

    pub struct St {
        inst: Mutex<Option<Signals>>,
        handle: Mutex<Option<Handle>>,
        pipe_id: Mutex<Option<signal_hook::SigId>>,
        read_end: i32,
    }

    pub fn build(name: &'static str, handle_first: bool) -> Scenario<Arc<St>> {
        let setup = || {
            fresh_registry(&[(S1, Disp::Ignore), (S2, Disp::Ignore)]);
            let s = Signals::new(&[S1]).expect("new");
            let h = s.handle();
            let mut fds = [0i32; 2];
            unsafe {
                libc::pipe(fds.as_mut_ptr());
            }
            let id = signal_hook::low_level::pipe::register_raw(S1, fds[1]).expect("register_raw");
            Arc::new(St { inst: Mutex::new(Some(s)), handle: Mutex::new(Some(h)), pipe_id: Mutex::new(Some(id)), read_end: fds[0] })
        };
        let m = ThreadSpec {
            name: "M",
            body: Box::new(move |s: &Arc<St>| {
                let id = s.pipe_id.lock().unwrap().take().unwrap();
                signal_hook::low_level::unregister(id);
                let i = s.inst.lock().unwrap().take();
                let h = s.handle.lock().unwrap().take();
                if handle_first {
                    drop(h);
                    drop(i);
                } else {
                    drop(i);
                    drop(h);
                }
            }),
            nest_signals: vec![S1],
            max_nest: 2,
        };
        let d = ThreadSpec {
            name: "D",
            body: Box::new(move |_s: &Arc<St>| {
                sched::raise(S1);
                sched::raise(S1);
            }),
            nest_signals: vec![],
            max_nest: 0,
        };
        Scenario {
            name: name.to_string(),
            opts: Opts { stale_reads: false, stale_depth: 2, max_spurious: 0, horizon: 20_000, log_ops: false, log_handler_ops: false, reduce: true, no_discipline: false, nest_value_t1: 0, post_points: false, no_race_check: false, start_points: false, endurance: 0 },
            signals: vec![S1, S2],
            setup: Box::new(setup),
            threads: vec![m, d],
            finish: Box::new(|s, e| {
                if !e.panics.is_empty() {
                    return Err(format!("C13: a thread panicked: {:?}", e.panics));
                }
                let before = e.log.iter().filter(|x| x.tag == "wake").count();
                sched::setup_raise(S1);
                let e = sched::exec();
                let w = e.log.iter().filter(|x| x.tag == "wake").count() - before;
                if w != 0 {
                    return Err(format!("C13: after every owner is gone a delivery still makes {} wake attempts", w));
                }
                unsafe {
                    libc::close(s.read_end);
                }
                Ok(e.log.iter().filter(|x| x.tag == "wake").count() as u64)
            }),
            monitor: None,
        }
    }
}

/// The iterator back-end owns the write end handed to `with_pipe`: after a rejected constructor list
/// (an accepted signal first, then one refused with an error / by panic) the write end is closed - its
/// peer reads end-of-file - and deliveries of the accepted signal write nothing.
fn with_pipe_cell(variant: usize, e: &mut Emit) {
    use signal_hook::iterator::backend::SignalDelivery;
    use signal_hook::iterator::exfiltrator::SignalOnly;
    use std::os::unix::io::AsRawFd;
    use std::os::unix::net::UnixStream;
    counters::install();
    let (r, w) = UnixStream::pair().unwrap();
    let probe = r.try_clone().unwrap();
    probe.set_nonblocking(true).unwrap();
    let wfd = w.as_raw_fd();
    let closes0 = close_count(wfd);
    let list: Vec<i32> = match variant {
        0 => vec![SIG, 100],
        1 => vec![SIG, libc::SIGKILL],
        2 => vec![SIG, libc::SIGWINCH, -3],
        4 => vec![SIG, libc::SIGUSR2, libc::SIGWINCH],
        _ => vec![SIG],
    };
    let out = std::panic::catch_unwind(std::panic::AssertUnwindSafe(|| SignalDelivery::with_pipe(r, w, SignalOnly::default(), &list)));
    let outcome = match &out {
        Ok(Ok(_)) => "ok",
        Ok(Err(_)) => "err",
        Err(_) => "panic",
    };
    e.line(&format!("outcome={}", outcome));
    if variant == 4 {
        // one of the watched signals (not the highest-numbered) loses its actions behind the instance's
        // back through the registry's own (deprecated) unregister_signal; the teardown still removes the rest
        #[allow(deprecated)]
        signal_hook_registry::unregister_signal(SIG);
    }
    if variant >= 3 {
        // accepted: drop the instance, then the same observations
        drop(out);
    }
    e.line(&format!("closed={}", !fd_open(wfd) as u8));
    e.line(&format!("close_calls={}", close_count(wfd) - closes0));
    let w0 = counters::wakes();
    for _ in 0..3 {
        unsafe {
            libc::raise(SIG);
            if variant == 4 {
                libc::raise(libc::SIGUSR2);
                libc::raise(libc::SIGWINCH);
            }
        }
    }
    e.line(&format!("later_wakes={}", counters::wakes() - w0));
    let mut buf = [0u8; 16];
    use std::io::Read;
    let mut pr = probe;
    let seen = match pr.read(&mut buf) {
        Ok(0) => "eof".to_string(),
        Ok(n) => format!("{}-bytes", n),
        Err(er) => format!("open-{:?}", er.kind()),
    };
    e.line(&format!("peer_sees={}", seen));
    e.line("done");
}

mod sched_part2 {
    //! A completely full pipe in blocking mode is handed to `register_raw` while the signal is being
    //! delivered - from another thread and nested at every operation boundary of the registration.
    use crate::props::reg::{fresh_registry, Disp, S1, S2};
    use crate::sched::{self, Opts, Scenario, ThreadSpec};
    use std::sync::{Arc, Mutex};

    pub struct St {
        fds: [i32; 2],
        id: Mutex<Option<signal_hook::SigId>>,
    }

    pub fn build(name: &'static str) -> Scenario<Arc<St>> {
        let setup = || {
            fresh_registry(&[(S1, Disp::Ignore), (S2, Disp::Ignore)]);
            let mut fds = [0i32; 2];
            unsafe {
                libc::pipe(fds.as_mut_ptr());
                libc::fcntl(fds[1], libc::F_SETPIPE_SZ, 4096);
                let fl = libc::fcntl(fds[1], libc::F_GETFL);
                libc::fcntl(fds[1], libc::F_SETFL, fl | libc::O_NONBLOCK);
                let buf = [0u8; 4096];
                while libc::write(fds[1], buf.as_ptr() as *const _, buf.len()) > 0 {}
                while libc::write(fds[1], buf.as_ptr() as *const _, 1) > 0 {}
                libc::fcntl(fds[1], libc::F_SETFL, fl); // blocking again, as the application created it
            }
            Arc::new(St { fds, id: Mutex::new(None) })
        };
        let m = ThreadSpec {
            name: "M",
            body: Box::new(move |s: &Arc<St>| {
                let id = signal_hook::low_level::pipe::register_raw(S1, s.fds[1]).expect("register_raw");
                *s.id.lock().unwrap() = Some(id);
            }),
            nest_signals: vec![S1],
            max_nest: 2,
        };
        let d = ThreadSpec {
            name: "D",
            body: Box::new(move |_s: &Arc<St>| {
                sched::raise(S1);
                sched::raise(S1);
            }),
            nest_signals: vec![],
            max_nest: 0,
        };
        Scenario {
            name: name.to_string(),
            opts: Opts { stale_reads: false, stale_depth: 2, max_spurious: 0, horizon: 20_000, log_ops: false, log_handler_ops: false, reduce: true, no_discipline: false, nest_value_t1: 0, post_points: false, no_race_check: false, start_points: false, endurance: 0 },
            signals: vec![S1, S2],
            setup: Box::new(setup),
            threads: vec![m, d],
            finish: Box::new(|s, e| {
                if !e.panics.is_empty() {
                    return Err(format!("C13: a thread panicked: {:?}", e.panics));
                }
                if let Some(id) = s.id.lock().unwrap().take() {
                    signal_hook::low_level::unregister(id);
                }
                unsafe {
                    libc::close(s.fds[0]);
                }
                Ok(e.log.iter().filter(|x| x.tag == "wake").count() as u64)
            }),
            monitor: None,
        }
    }
}

pub fn run(tier: Tier) -> BResult {
    let kinds = [Kind::Pipe, Kind::Stream, Kind::Dgram];
    let bursts: Vec<usize> = if tier == Tier::Quick { vec![0, 1, 2, 3, 4] } else { (0..=8).collect() };
    #[derive(Clone)]
    enum Cell {
        Wake(Kind, usize, usize, bool),
        Own(Kind, usize),
        IterBurst(usize),
        WithPipe(usize),
        Shared(Kind, usize),
    }
    let mut cells: Vec<Cell> = Vec::new();
    for &k in &kinds {
        for f in 0..3 {
            for &b in &bursts {
                for raw in [true, false] {
                    cells.push(Cell::Wake(k, f, b, raw));
                }
            }
        }
        for v in 0..5 {
            cells.push(Cell::Own(k, v));
        }
        for v in 0..5 {
            cells.push(Cell::Shared(k, v));
        }
    }
    for n in [1usize, 300, 3000] {
        cells.push(Cell::IterBurst(n));
    }
    for v in 0..5 {
        cells.push(Cell::WithPipe(v));
    }
    let cells2 = cells.clone();
    let probes = run_cells(cells.len(), 12, Duration::from_secs(15), move |i, e| match &cells2[i] {
        Cell::Wake(k, f, b, raw) => wake_cell(*k, *f, *b, *raw, e),
        Cell::Own(k, v) => own_cell(*k, *v, e),
        Cell::IterBurst(n) => iterator_burst(*n, e),
        Cell::WithPipe(v) => with_pipe_cell(*v, e),
        Cell::Shared(k, v) => shared_cell(*k, *v, e),
    });
    let mut violations = Vec::new();
    let mut samples = Vec::new();
    let mut classes: std::collections::BTreeMap<String, u64> = Default::default();
    let mut distinct = std::collections::HashSet::new();
    let mut transitions = 0u64;
    let fills = ["empty", "nearly full (room for a wake byte)", "full"];
    for (i, p) in probes.iter().enumerate() {
        let mut bad: Option<String> = None;
        let case;
        match &cells[i] {
            Cell::Wake(k, f, b, raw) => {
                transitions += *b as u64 + 3;
                case = json!({"kind": format!("{:?}", k), "fill": fills[*f], "burst": b, "entry": if *raw { "register_raw" } else { "register" }});
                *classes.entry(format!("wake:{:?}:{}", k, fills[*f])).or_insert(0) += 1;
                distinct.insert(format!("{:?}{}{}{}", k, f, (*b).min(2), p.find("drained ").unwrap_or("")));
                if p.fate == Fate::TimedOut {
                    let last = p.all("delivered ").len();
                    bad = Some(format!("a delivery did not return (blocked in the wake write) - delivery #{} with the write end {}", last, fills[*f]));
                } else if p.fate != Fate::Exited(0) || !p.has("done") {
                    bad = Some(format!("child {}: {:?}", p.fate.describe(), p.lines.last()));
                } else {
                    let wakes: usize = p.find("wakes=").and_then(|x| x.parse().ok()).unwrap_or(usize::MAX);
                    let d = p.find("drained ").unwrap_or("");
                    let get = |key: &str| -> usize { d.split_whitespace().find_map(|t| t.strip_prefix(key)).and_then(|x| x.parse().ok()).unwrap_or(usize::MAX) };
                    let (x, z) = (get("x="), get("empty="));
                    if wakes != *b {
                        bad = Some(format!("{} deliveries made {} wake attempts (must be exactly one each)", b, wakes));
                    } else if x > *b {
                        bad = Some(format!("reader sees {} wake bytes after {} deliveries (more bytes than deliveries)", x, b));
                    } else if *f == 0 && x != *b {
                        bad = Some(format!("with an empty pipe {} deliveries produced {} wake bytes", b, x));
                    } else if *f == 1 && *b >= 1 && x < 1 {
                        bad = Some("no wake byte arrived although there was room for one".into());
                    } else if z > 1 {
                        bad = Some(format!("{} empty datagrams", z));
                    } else if p.find("second ") != Some("x=1") {
                        bad = Some(format!("after draining, one more delivery produced {} (must be exactly one byte)", p.find("second ").unwrap_or("")));
                    } else if p.find("closed_after_unregister=") != Some("1") {
                        bad = Some("descriptor still open after the action was removed".into());
                    }
                }
            }
            Cell::IterBurst(n) => {
                transitions += *n as u64 + 3;
                case = json!({"kind": "iterator self-pipe (Signals)", "burst": n});
                *classes.entry("iterator self-pipe burst".into()).or_insert(0) += 1;
                distinct.insert(format!("iterburst{}", n));
                if p.fate == Fate::TimedOut {
                    bad = Some(format!("a delivery did not return: the wake into the iterator's own self-pipe blocked (last progress: {:?})", p.all("delivered ").last()));
                } else if p.fate != Fate::Exited(0) || !p.has("done") {
                    bad = Some(format!("child {}: {:?}", p.fate.describe(), p.lines.last()));
                } else if p.find("wakes=") != Some(&n.to_string()) {
                    bad = Some(format!("{} deliveries made {} wake attempts", n, p.find("wakes=").unwrap_or("")));
                } else if p.find("pending=") != Some("[10]") || p.find("wait_after_drain=") != Some("[10]") {
                    bad = Some(format!("after the burst pending() gave {} and, after one more delivery, wait() gave {}", p.find("pending=").unwrap_or(""), p.find("wait_after_drain=").unwrap_or("")));
                }
            }
            Cell::WithPipe(v) => {
                transitions += 5;
                let names = ["list [accepted, refused by the OS]", "list [accepted, forbidden]", "list [accepted, accepted, negative]", "accepted list, instance dropped", "three signals accepted, unregister_signal of the lowest one through the registry, instance dropped"];
                case = json!({"kind": "write end handed to SignalDelivery::with_pipe", "history": names[*v]});
                *classes.entry(format!("with_pipe:{}", names[*v])).or_insert(0) += 1;
                distinct.insert(format!("withpipe{}{}", v, p.find("outcome=").unwrap_or("")));
                let want = ["err", "panic", "panic", "ok", "ok"][*v];
                if p.fate != Fate::Exited(0) || !p.has("done") {
                    bad = Some(format!("child {}: {:?}", p.fate.describe(), p.lines.last()));
                } else if p.find("outcome=") != Some(want) {
                    bad = Some(format!("outcome {} (expected {})", p.find("outcome=").unwrap_or(""), want));
                } else if p.find("closed=") != Some("1") || p.find("peer_sees=") != Some("eof") {
                    bad = Some(format!("the write end handed over is still open after the {} (descriptor closed: {}, its peer sees {})", if *v >= 3 { "instance was dropped" } else { "constructor refused the list" }, p.find("closed=").unwrap_or(""), p.find("peer_sees=").unwrap_or("")));
                } else if p.find("close_calls=") != Some("1") {
                    bad = Some(format!("close() was called {} times on the write end", p.find("close_calls=").unwrap_or("")));
                } else if p.find("later_wakes=") != Some("0") {
                    bad = Some(format!("3 later deliveries of the accepted signal made {} wake attempts (its action was not removed: the descriptor is written to after it was given up)", p.find("later_wakes=").unwrap_or("")));
                }
            }
            Cell::Shared(k, v) => {
                transitions += 7;
                let names = ["two signals on dup'ed write ends, the first registration removed", "two signals on dup'ed write ends, the second registration removed", "a registration of the dup refused by the OS", "a registration of the dup refused by panic", "one signal twice on dup'ed write ends, the first registration removed"];
                case = json!({"kind": format!("{:?}", k), "history": format!("{}; then the write end is filled completely and the remaining registration's signal is delivered", names[*v])});
                *classes.entry(format!("shared description:{}", names[*v])).or_insert(0) += 1;
                distinct.insert(format!("shared{:?}{}", k, v));
                if p.fate == Fate::TimedOut {
                    bad = Some(format!("a delivery did not return (blocked in the wake write into the full write end) - after {} deliveries", p.all("delivered ").len()));
                } else if p.fate != Fate::Exited(0) || !p.has("done") {
                    bad = Some(format!("child {}: {:?}", p.fate.describe(), p.lines.last()));
                } else if (*v == 2 || *v == 3) && p.find("refused=") != Some("1") {
                    bad = Some("the registration that must be refused was accepted".into());
                } else if p.find("wakes=") != Some("2") {
                    bad = Some(format!("2 deliveries made {} wake attempts with one registration left", p.find("wakes=").unwrap_or("")));
                } else if p.find("second ") != Some("x=1") {
                    bad = Some(format!("after draining, one more delivery produced {} (must be exactly one byte)", p.find("second ").unwrap_or("")));
                } else if p.find("closed=") != Some("1") {
                    bad = Some("a descriptor handed over is still open after every registration is gone".into());
                }
            }
            Cell::Own(k, v) => {
                transitions += 6;
                let names = ["register-deliver-unregister", "rejected: forbidden signal", "rejected: signal refused by the OS", "invalid descriptor -1", "descriptor number already closed"];
                case = json!({"kind": format!("{:?}", k), "history": names[*v]});
                *classes.entry(format!("ownership:{}", names[*v])).or_insert(0) += 1;
                distinct.insert(format!("own{:?}{}{}", k, v, p.find("outcome=").unwrap_or("")));
                if p.fate != Fate::Exited(0) || !p.has("done") {
                    bad = Some(format!("child {}: {:?}", p.fate.describe(), p.lines.last()));
                } else {
                    let want = ["unregistered", "forbidden:panic", "refused:err", "fd-1:err", "closed-number:err"][*v];
                    if p.find("outcome=") != Some(want) {
                        bad = Some(format!("outcome {} (expected {})", p.find("outcome=").unwrap_or(""), want));
                    } else if p.find("closed=") != Some("1") {
                        bad = Some("the descriptor handed over is still open after removal / rejection".into());
                    } else if p.find("close_calls=") != Some(["1", "1", "1", "1", "2"][*v]) && *v != 3 {
                        bad = Some(format!("close() was called {} times on the descriptor number handed over (exactly once expected)", p.find("close_calls=").unwrap_or("")));
                    } else if p.find("sentinel_placed=") == Some("1") && p.find("sentinel_open=") != Some("1") {
                        bad = Some("the descriptor number was closed a second time later (a sentinel that took the number got closed)".into());
                    } else if p.find("later_wakes=") != Some("2") {
                        bad = Some(format!("later deliveries made {} wake attempts with one pipe registered (a removed/rejected pipe is still written to)", p.find("later_wakes=").unwrap_or("")));
                    } else if p.find("second_pipe_x=") != Some("2") {
                        bad = Some(format!("second pipe got {} bytes for 2 deliveries", p.find("second_pipe_x=").unwrap_or("")));
                    }
                }
            }
        }
        if samples.len() < 4 && i % 61 == 0 {
            samples.push(json!({"case": case, "child": p.fate.describe(), "reported": p.lines}));
        }
        if let Some(m) = bad {
            violations.push(BViolation { message: format!("C13: {}: {}", case, m), case });
        }
    }
    // schedules (engine A)
    let mut a_states = 0u64;
    let mut a_trans = 0u64;
    let mut a_execs = 0u64;
    let mut a_caps = Vec::new();
    // two threads add the same signal to one instance: still one wake byte per delivery, none after the end
    {
        let name = "two_threads_add_same_signal_one_byte_per_delivery";
        let sc = super::c12::sched_part::build(name, false);
        let cfg = crate::explore::Config { property: "C13".into(), bound: Some(if tier == Tier::Quick { 2 } else { 3 }), max_wall: Duration::from_secs(if tier == Tier::Quick { 25 } else { 600 }), workers: crate::props::workers_for(4), hang_secs: 30 };
        match crate::explore::explore(&sc, &cfg) {
            Ok(sum) => {
                eprintln!("[C13] schedules {:<44} bound={:?} execs={} states={} steps={} distinct={}{}", name, cfg.bound, sum.stats.executions, sum.stats.states, sum.stats.transitions, sum.stats.digests.len(), if sum.stats.capped { " CAPPED" } else { "" });
                a_states += sum.stats.states;
                a_trans += sum.stats.transitions;
                a_execs += sum.stats.executions;
                if sum.stats.capped {
                    a_caps.push(json!({"scenario": name, "cap": "wall-clock"}));
                }
                *classes.entry(format!("schedules:{}", name)).or_insert(0) += sum.stats.executions;
                for v in sum.violations {
                    let cl = crate::explore::class_of(&v.message);
                    if cl == "engine" {
                        violations.push(BViolation { message: format!("engine: {}", v.message), case: json!({"scenario": name}) });
                    } else if cl == "C12" || cl == "C13" || cl == "crash" || cl == "hung" {
                        // the scenario's oracle counts wake attempts per delivery - C13's clause as much as C12's
                        violations.push(BViolation { message: format!("C13: {} [schedule replay: {}]", v.message.trim_start_matches("C12: "), v.replay), case: json!({"scenario": name, "engine": "sigsched", "choices": v.choices}) });
                    }
                }
            }
            Err(er) => violations.push(BViolation { message: format!("engine: {}", er), case: json!({"scenario": name}) }),
        }
    }
    for (name, handle_first) in [("owners_go_away_vs_deliveries", 0u8), ("owners_go_away_handle_first_vs_deliveries", 1), ("register_raw_full_blocking_pipe_vs_deliveries", 2)] {
        if handle_first == 2 {
            let sc = sched_part2::build(name);
            let cfg = crate::explore::Config { property: "C13".into(), bound: Some(if tier == Tier::Quick { 2 } else { 3 }), max_wall: Duration::from_secs(if tier == Tier::Quick { 25 } else { 600 }), workers: crate::props::workers_for(3), hang_secs: 30 };
            match crate::explore::explore(&sc, &cfg) {
                Ok(sum) => {
                    eprintln!("[C13] schedules {:<44} bound={:?} execs={} states={} steps={} distinct={}{}", name, cfg.bound, sum.stats.executions, sum.stats.states, sum.stats.transitions, sum.stats.digests.len(), if sum.stats.capped { " CAPPED" } else { "" });
                    a_states += sum.stats.states;
                    a_trans += sum.stats.transitions;
                    a_execs += sum.stats.executions;
                    if sum.stats.capped {
                        a_caps.push(json!({"scenario": name, "cap": "wall-clock"}));
                    }
                    *classes.entry(format!("schedules:{}", name)).or_insert(0) += sum.stats.executions;
                    for v in sum.violations {
                        let cl = crate::explore::class_of(&v.message);
                        if cl == "engine" {
                            violations.push(BViolation { message: format!("engine: {}", v.message), case: json!({"scenario": name}) });
                        } else if cl == "C13" || cl == "crash" || cl == "hung" {
                            violations.push(BViolation { message: format!("{} [schedule replay: {}]", v.message, v.replay), case: json!({"scenario": name, "engine": "sigsched", "choices": v.choices}) });
                        }
                    }
                }
                Err(er) => violations.push(BViolation { message: format!("engine: {}", er), case: json!({"scenario": name}) }),
            }
            continue;
        }
        let handle_first = handle_first == 1;
        let sc = sched_part::build(name, handle_first);
        let cfg = crate::explore::Config { property: "C13".into(), bound: Some(if tier == Tier::Quick { 2 } else { 3 }), max_wall: Duration::from_secs(if tier == Tier::Quick { 25 } else { 600 }), workers: crate::props::workers_for(3), hang_secs: 30 };
        match crate::explore::explore(&sc, &cfg) {
            Ok(sum) => {
                eprintln!("[C13] schedules {:<44} bound={:?} execs={} states={} steps={} distinct={}{}", name, cfg.bound, sum.stats.executions, sum.stats.states, sum.stats.transitions, sum.stats.digests.len(), if sum.stats.capped { " CAPPED" } else { "" });
                a_states += sum.stats.states;
                a_trans += sum.stats.transitions;
                a_execs += sum.stats.executions;
                if sum.stats.capped {
                    a_caps.push(json!({"scenario": name, "cap": "wall-clock"}));
                }
                *classes.entry(format!("schedules:{}", name)).or_insert(0) += sum.stats.executions;
                for v in sum.violations {
                    let cl = crate::explore::class_of(&v.message);
                    if cl == "engine" {
                        violations.push(BViolation { message: format!("engine: {}", v.message), case: json!({"scenario": name}) });
                    } else if cl == "C13" || cl == "crash" || cl == "hung" {
                        violations.push(BViolation { message: format!("{} [schedule replay: {}]", v.message, v.replay), case: json!({"scenario": name, "engine": "sigsched", "choices": v.choices}) });
                    }
                }
            }
            Err(er) => violations.push(BViolation { message: format!("engine: {}", er), case: json!({"scenario": name}) }),
        }
    }
    BResult {
        states: cells.len() as u64 + a_states,
        transitions: transitions + a_trans,
        evaluations: cells.len() as u64 + a_execs,
        distinct: distinct.len() as u64,
        samples,
        per_class: json!(classes),
        violations,
        exhaustive: a_caps.is_empty(),
        caps: a_caps,
        rule: format!("schedules: the action of a registered pipe is removed and an iterator instance and its last handle are dropped (both orders) while the signal is delivered from another thread and nested at every operation boundary of the teardown - every wake attempt must hit an open descriptor, and none happens once the owners are gone; a completely full pipe in blocking mode is handed to register_raw while the signal is delivered from another thread and nested at every boundary of the registration - no wake attempt may meet a full pipe that is still blocking; two threads add the same signal through handle clones - a delivery still makes exactly one wake attempt and none once everything is gone; every choice vector within the deviation bound on the real code; grid: complete grid descriptor kind {{pipe, unix stream, unix datagram}} x fill level {{empty, nearly full, completely full}} x burst {:?} x entry {{register_raw, register}} + 5 ownership histories per kind (register/deliver/unregister; rejected: forbidden, OS-refused, fd -1, closed number; then a sentinel on the freed number while the library keeps being used) + 5 histories per kind of two registrations sharing one open file description through dup'ed write ends (one removed or refused, then a completely full write end and deliveries for the one that is left) + 4 histories of a write end handed to SignalDelivery::with_pipe (list refused by the OS / by panic after an accepted signal; accepted list then drop); each cell in a forked child with a watchdog", bursts),
        assumptions: vec!["wake attempts are counted through the cfg(sighook_verif) scheduling point in pipe::wake".into(), "pipe capacity reduced to one page with F_SETPIPE_SZ".into()],
    }
}
