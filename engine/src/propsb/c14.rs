//! C14: forbidden and invalid signals are refused before anything changes.
//! Complete grid: entry point x signal number x context, one forked child per cell.
#![allow(clippy::all)]
use super::*;
use crate::histex::{run_cells, BResult, BViolation, Emit, Fate};
use serde_json::json;
use signal_hook::iterator::exfiltrator::{SignalOnly, WithOrigin, WithRawSiginfo};
use signal_hook::iterator::SignalsInfo;
use signal_hook_registry as reg;
use std::os::unix::io::AsRawFd;
use std::os::unix::net::UnixStream;
use std::sync::atomic::{AtomicBool, AtomicUsize, Ordering};
use std::sync::Arc;
use std::time::Duration;

pub const ENTRY: [&str; 19] = [
    "registry::register",
    "registry::register_sigaction",
    "registry::register_signal_unchecked",
    "registry::register_unchecked",
    "flag::register",
    "flag::register_usize",
    "flag::register_conditional_shutdown",
    "flag::register_conditional_default",
    "pipe::register",
    "pipe::register_raw",
    "Signals::new",
    "SignalsInfo<WithRawSiginfo>::new",
    "SignalsInfo<WithOrigin>::new",
    "Handle::add_signal(SignalOnly)",
    "Handle::add_signal(WithRawSiginfo)",
    "Handle::add_signal(WithOrigin)",
    "Signals::new([SIGURG, x])",
    "SignalsInfo<WithRawSiginfo>::new([SIGURG, x])",
    "SignalsInfo<WithOrigin>::new([SIGURG, x])",
];

/// a signal that is valid, not used by anything else here and ignored by default
const FIRST_IN_LIST: i32 = libc::SIGURG;

fn open_fds() -> usize {
    std::fs::read_dir("/proc/self/fd").map(|d| d.count()).unwrap_or(0)
}

static HITS: [AtomicUsize; 4] = [AtomicUsize::new(0), AtomicUsize::new(0), AtomicUsize::new(0), AtomicUsize::new(0)];

/// What the call did, and what it held on to.
struct CallOut {
    outcome: String,
    /// resources handed in: (strong count of the Arc after the call or 0, fd or -1)
    strong: usize,
    fd: i32,
    /// keep-alive of successful registrations / instances
    #[allow(dead_code)]
    keep: Option<Box<dyn std::any::Any>>,
}

fn res<T>(r: std::thread::Result<Result<T, std::io::Error>>) -> (String, Option<T>) {
    match r {
        Ok(Ok(v)) => ("ok".into(), Some(v)),
        Ok(Err(e)) => (format!("err({})", e.raw_os_error().unwrap_or(-1)), None),
        Err(p) => (format!("panic({})", panic_msg(&p).chars().take(60).collect::<String>()), None),
    }
}

fn call(entry: usize, sig: i32, instances: &mut Instances) -> CallOut {
    use std::panic::{catch_unwind, AssertUnwindSafe as A};
    match entry {
        0 => {
            let f = Arc::new(AtomicBool::new(false));
            let f2 = f.clone();
            let (o, k) = res(catch_unwind(A(|| unsafe { reg::register(sig, move || f2.store(true, Ordering::SeqCst)) })));
            CallOut { outcome: o, strong: Arc::strong_count(&f), fd: -1, keep: k.map(|x| Box::new(x) as Box<dyn std::any::Any>) }
        }
        1 => {
            let f = Arc::new(AtomicBool::new(false));
            let f2 = f.clone();
            let (o, k) = res(catch_unwind(A(|| unsafe { reg::register_sigaction(sig, move |_| f2.store(true, Ordering::SeqCst)) })));
            CallOut { outcome: o, strong: Arc::strong_count(&f), fd: -1, keep: k.map(|x| Box::new(x) as Box<dyn std::any::Any>) }
        }
        2 => {
            let f = Arc::new(AtomicBool::new(false));
            let f2 = f.clone();
            let (o, k) = res(catch_unwind(A(|| unsafe { reg::register_signal_unchecked(sig, move || f2.store(true, Ordering::SeqCst)) })));
            CallOut { outcome: o, strong: Arc::strong_count(&f), fd: -1, keep: k.map(|x| Box::new(x) as Box<dyn std::any::Any>) }
        }
        3 => {
            let f = Arc::new(AtomicBool::new(false));
            let f2 = f.clone();
            let (o, k) = res(catch_unwind(A(|| unsafe { reg::register_unchecked(sig, move |_| f2.store(true, Ordering::SeqCst)) })));
            CallOut { outcome: o, strong: Arc::strong_count(&f), fd: -1, keep: k.map(|x| Box::new(x) as Box<dyn std::any::Any>) }
        }
        4 => {
            let f = Arc::new(AtomicBool::new(false));
            let (o, k) = res(catch_unwind(A(|| signal_hook::flag::register(sig, f.clone()))));
            CallOut { outcome: o, strong: Arc::strong_count(&f), fd: -1, keep: k.map(|x| Box::new(x) as Box<dyn std::any::Any>) }
        }
        5 => {
            let f = Arc::new(AtomicUsize::new(0));
            let (o, k) = res(catch_unwind(A(|| signal_hook::flag::register_usize(sig, f.clone(), 5))));
            CallOut { outcome: o, strong: Arc::strong_count(&f), fd: -1, keep: k.map(|x| Box::new(x) as Box<dyn std::any::Any>) }
        }
        6 => {
            let f = Arc::new(AtomicBool::new(false));
            let (o, k) = res(catch_unwind(A(|| signal_hook::flag::register_conditional_shutdown(sig, 1, f.clone()))));
            CallOut { outcome: o, strong: Arc::strong_count(&f), fd: -1, keep: k.map(|x| Box::new(x) as Box<dyn std::any::Any>) }
        }
        7 => {
            let f = Arc::new(AtomicBool::new(false));
            let (o, k) = res(catch_unwind(A(|| signal_hook::flag::register_conditional_default(sig, f.clone()))));
            CallOut { outcome: o, strong: Arc::strong_count(&f), fd: -1, keep: k.map(|x| Box::new(x) as Box<dyn std::any::Any>) }
        }
        8 => {
            let (r, w) = UnixStream::pair().unwrap();
            let fd = w.as_raw_fd();
            let (o, k) = res(catch_unwind(A(|| signal_hook::low_level::pipe::register(sig, w))));
            CallOut { outcome: o, strong: 0, fd, keep: Some(Box::new((r, k))) }
        }
        9 => {
            let mut fds = [0i32; 2];
            unsafe {
                libc::pipe(fds.as_mut_ptr());
            }
            let (o, k) = res(catch_unwind(A(|| signal_hook::low_level::pipe::register_raw(sig, fds[1]))));
            CallOut { outcome: o, strong: 0, fd: fds[1], keep: k.map(|x| Box::new(x) as Box<dyn std::any::Any>) }
        }
        10 => {
            let (o, k) = res(catch_unwind(A(|| SignalsInfo::<SignalOnly>::new(&[sig]))));
            CallOut { outcome: o, strong: 0, fd: -1, keep: k.map(|x| Box::new(x) as Box<dyn std::any::Any>) }
        }
        11 => {
            let (o, k) = res(catch_unwind(A(|| SignalsInfo::<WithRawSiginfo>::new(&[sig]))));
            CallOut { outcome: o, strong: 0, fd: -1, keep: k.map(|x| Box::new(x) as Box<dyn std::any::Any>) }
        }
        12 => {
            let (o, k) = res(catch_unwind(A(|| SignalsInfo::<WithOrigin>::new(&[sig]))));
            CallOut { outcome: o, strong: 0, fd: -1, keep: k.map(|x| Box::new(x) as Box<dyn std::any::Any>) }
        }
        16 => {
            let (o, k) = res(catch_unwind(A(|| SignalsInfo::<SignalOnly>::new(&[FIRST_IN_LIST, sig]))));
            CallOut { outcome: o, strong: 0, fd: -1, keep: k.map(|x| Box::new(x) as Box<dyn std::any::Any>) }
        }
        17 => {
            let (o, k) = res(catch_unwind(A(|| SignalsInfo::<WithRawSiginfo>::new(&[FIRST_IN_LIST, sig]))));
            CallOut { outcome: o, strong: 0, fd: -1, keep: k.map(|x| Box::new(x) as Box<dyn std::any::Any>) }
        }
        18 => {
            let (o, k) = res(catch_unwind(A(|| SignalsInfo::<WithOrigin>::new(&[FIRST_IN_LIST, sig]))));
            CallOut { outcome: o, strong: 0, fd: -1, keep: k.map(|x| Box::new(x) as Box<dyn std::any::Any>) }
        }
        13 => {
            let (o, _) = res(catch_unwind(A(|| instances.a.handle().add_signal(sig))));
            CallOut { outcome: o, strong: 0, fd: -1, keep: None }
        }
        14 => {
            let (o, _) = res(catch_unwind(A(|| instances.b.handle().add_signal(sig))));
            CallOut { outcome: o, strong: 0, fd: -1, keep: None }
        }
        _ => {
            let (o, _) = res(catch_unwind(A(|| instances.c.handle().add_signal(sig))));
            CallOut { outcome: o, strong: 0, fd: -1, keep: None }
        }
    }
}

struct Instances {
    a: SignalsInfo<SignalOnly>,
    b: SignalsInfo<WithRawSiginfo>,
    c: SignalsInfo<WithOrigin>,
}

const VALID_NEXT: i32 = libc::SIGWINCH;

fn cell(entry: usize, sig: i32, ctx: usize, e: &mut Emit) {
    // context
    let mut probe_ids = Vec::new();
    if ctx == 1 {
        for (k, s) in [libc::SIGUSR1, libc::SIGUSR2].iter().enumerate() {
            probe_ids.push(unsafe { reg::register(*s, move || { HITS[k].fetch_add(1, Ordering::SeqCst); }) }.unwrap());
        }
    }
    if ctx == 2 {
        // the same number was registered through an unchecked entry point before (and removed
        // again): the library may already have an entry / its handler installed for it
        if let Ok(id) = unsafe { reg::register_unchecked(sig, |_| ()) } {
            reg::unregister(id);
        }
    }
    let empty: [i32; 0] = [];
    #[allow(unused_mut)]
    let mut inst = Instances { a: SignalsInfo::<SignalOnly>::new(&empty).unwrap(), b: SignalsInfo::<WithRawSiginfo>::new(&empty).unwrap(), c: SignalsInfo::<WithOrigin>::new(&empty).unwrap() };
    if ctx == 4 {
        // the instances already watch low-numbered signals (a number congruent to one of them modulo the
        // table size must still be refused)
        for s in [libc::SIGHUP, libc::SIGINT] {
            inst.a.handle().add_signal(s).unwrap();
            inst.b.handle().add_signal(s).unwrap();
            inst.c.handle().add_signal(s).unwrap();
        }
    }
    if ctx == 3 {
        // the instances have been closed: additions are still judged like on an open one
        inst.a.handle().close();
        inst.b.handle().close();
        inst.c.handle().close();
    }
    crate::histex::counters::install();
    let mut before = dispositions();
    let fds_before = open_fds();
    let out = call(entry, sig, &mut inst);
    let mut after = dispositions();
    if entry >= 16 {
        // the accepted first signal of the list is taken over for good (the library never gives a
        // signal back); what must be rolled back is the action, the slots and the pipe
        before[(FIRST_IN_LIST - 1) as usize] = (0, 0);
        after[(FIRST_IN_LIST - 1) as usize] = (0, 0);
    }
    e.line(&format!("outcome={}", out.outcome));
    if entry >= 16 && out.outcome != "ok" {
        let w0 = crate::histex::counters::wakes();
        unsafe {
            libc::raise(FIRST_IN_LIST);
        }
        e.line(&format!("first_still_registered={}", crate::histex::counters::wakes() - w0));
        e.line(&format!("fds_leaked={}", open_fds() as i64 - fds_before as i64));
    }
    e.line(&format!("disp_changed={}", (before != after) as u8));
    e.line(&format!("strong={}", out.strong));
    if out.fd >= 0 {
        e.line(&format!("fd_open={}", fd_open(out.fd) as u8));
    }
    if ctx == 1 {
        unsafe {
            libc::raise(libc::SIGUSR1);
            libc::raise(libc::SIGUSR2);
        }
        e.line(&format!("probe_hits={},{}", HITS[0].load(Ordering::SeqCst), HITS[1].load(Ordering::SeqCst)));
    }
    // the library stays usable through the same entry point
    let next = call(entry, VALID_NEXT, &mut inst);
    e.line(&format!("next={}", next.outcome));
    e.line("done");
}

/// A refused registration releases the would-be action - also when what the action captured uses
/// the library while it is being released (a guard that unregisters a companion hook; the last
/// handle of an iterator instance that is already gone).
fn reentrant_release_cell(variant: usize, e: &mut Emit) {
    struct Guard(Option<reg::SigId>);
    impl Drop for Guard {
        fn drop(&mut self) {
            let r = self.0.take().map_or(false, reg::unregister);
            RELEASED.store(1 + r as usize, Ordering::SeqCst);
        }
    }
    static RELEASED: AtomicUsize = AtomicUsize::new(0);
    let companion = unsafe { reg::register(libc::SIGUSR1, || ()) }.unwrap();
    let g = Guard(Some(companion));
    let handle = {
        let s = SignalsInfo::<SignalOnly>::new(&[libc::SIGUSR2]).unwrap();
        s.handle()
    };
    let outcome = match variant {
        0 => unsafe { reg::register_unchecked(libc::SIGKILL, move |_| { let _ = &g; }) }.map(|_| ()),
        1 => unsafe { reg::register(100, move || { let _ = &g; }) }.map(|_| ()),
        2 => unsafe { reg::register_signal_unchecked(libc::SIGSTOP, move || { let _ = &handle; }) }.map(|_| ()),
        _ => unsafe { reg::register_sigaction(0, move |_| { let _ = &handle; }) }.map(|_| ()),
    };
    e.line(&format!("outcome={}", if outcome.is_ok() { "ok" } else { "err" }));
    e.line(&format!("guard_released={}", RELEASED.load(Ordering::SeqCst)));
    // the library is still usable
    let again = unsafe { reg::register(libc::SIGWINCH, || ()) };
    e.line(&format!("next={}", if again.is_ok() { "ok" } else { "err" }));
    e.line("done");
}

/// The kernel's (and libc's) verdict on installing a handler for each number, obtained independently.
fn os_verdicts(sigs: &[i32]) -> Vec<bool> {
    let sigs2 = sigs.to_vec();
    let p = run_cells(1, 1, Duration::from_secs(30), move |_, e| {
        extern "C" fn h(_: libc::c_int) {}
        for &s in &sigs2 {
            let ok = unsafe {
                let mut sa: libc::sigaction = std::mem::zeroed();
                sa.sa_sigaction = h as usize;
                libc::sigaction(s, &sa, std::ptr::null_mut()) == 0
            };
            e.line(&format!("{}={}", s, ok as u8));
        }
    });
    sigs.iter().map(|s| p[0].has(&format!("{}=1", s))).collect()
}

pub fn expected(entry: usize, sig: i32, os_ok: bool) -> &'static str {
    let checked = !(entry == 2 || entry == 3);
    let iterator = entry >= 10;
    if entry >= 16 && sig == FIRST_IN_LIST {
        return "ok"; // listed twice: watched once
    }
    if iterator && (sig < 0 || sig >= 128) {
        return "panic";
    }
    if checked && forbidden(sig) {
        return "panic";
    }
    // register_conditional_default refuses signals whose default action it does not know: on Linux the
    // named signals 1..31 except SIGSTKFLT (16) and SIGPWR (30) - the checker's own list
    if entry == 7 && !(sig >= 1 && sig <= 31 && sig != 16 && sig != 30) {
        return "err";
    }
    if !os_ok {
        return "err";
    }
    "ok"
}

const CTX: [&str; 5] = ["fresh", "after-two-registrations", "after an unchecked registration (and removal) of the same number", "on an instance that has been closed", "on an instance that already watches SIGHUP and SIGINT"];

pub fn run(tier: Tier) -> BResult {
    let sigs = sig_list();
    let verdict = os_verdicts(&sigs);
    let contexts = if tier == Tier::Quick { vec![0usize, 2] } else { vec![0usize, 1, 2] };
    let mut cells: Vec<(usize, i32, usize, bool)> = Vec::new();
    for &c in &contexts {
        for en in 0..ENTRY.len() {
            for (i, &s) in sigs.iter().enumerate() {
                cells.push((en, s, c, verdict[i]));
            }
        }
    }
    for en in 13..=15 {
        for (i, &s) in sigs.iter().enumerate() {
            cells.push((en, s, 3, verdict[i]));
            if s != libc::SIGHUP && s != libc::SIGINT {
                cells.push((en, s, 4, verdict[i]));
            }
        }
    }
    let cells_ref = cells.clone();
    let probes = run_cells(cells.len(), 16, Duration::from_secs(30), move |i, e| {
        let (en, s, c, _) = cells_ref[i];
        cell(en, s, c, e);
    });
    let rprobes = run_cells(4, 4, Duration::from_secs(10), move |i, e| reentrant_release_cell(i, e));
    let mut violations = Vec::new();
    for (i, p) in rprobes.iter().enumerate() {
        let names = ["register_unchecked(SIGKILL), action owns a guard that unregisters a companion hook", "register(100), action owns such a guard", "register_signal_unchecked(SIGSTOP), action owns the last handle of a dropped iterator instance", "register_sigaction(0), action owns such a handle"];
        let case = json!({"entry": names[i], "context": "what the refused action captured uses the library when it is released"});
        let bad = if p.fate == Fate::TimedOut {
            Some("the refused call never returned (the action was released while the registry's writer lock was held, and its release needs that lock)".to_string())
        } else if p.fate != Fate::Exited(0) || !p.has("done") {
            Some(format!("the process {} (last: {:?})", p.fate.describe(), p.lines.last()))
        } else if p.find("outcome=") != Some("err") {
            Some("the OS-refused registration did not return an error".to_string())
        } else if i < 2 && p.find("guard_released=") != Some("2") {
            Some(format!("what the action captured was not released properly (guard state {})", p.find("guard_released=").unwrap_or("?")))
        } else if p.find("next=") != Some("ok") {
            Some("the library is not usable afterwards".to_string())
        } else {
            None
        };
        if let Some(m) = bad {
            violations.push(BViolation { message: format!("C14: {}: {}", names[i], m), case });
        }
    }
    let mut classes: std::collections::BTreeMap<String, u64> = Default::default();
    let mut samples = Vec::new();
    let mut distinct = std::collections::HashSet::new();
    for (i, p) in probes.iter().enumerate() {
        let (en, s, c, os_ok) = cells[i];
        let want = expected(en, s, os_ok);
        let case = json!({"entry": ENTRY[en], "signal": s, "context": CTX[c], "expected": want});
        let outcome = p.find("outcome=").unwrap_or("").to_string();
        let got_class = outcome.split('(').next().unwrap_or("").to_string();
        *classes.entry(format!("{}:{}", if en >= 10 { "iterator" } else if en == 2 || en == 3 { "unchecked" } else { "checked" }, if p.fate == Fate::Exited(0) { got_class.clone() } else { p.fate.describe() })).or_insert(0) += 1;
        distinct.insert((en, got_class.clone(), p.fate.describe(), want));
        if samples.len() < 4 && (i % 997 == 0) {
            samples.push(json!({"case": case, "child": p.fate.describe(), "reported": p.lines}));
        }
        let mut bad: Option<String> = None;
        if p.fate != Fate::Exited(0) || !p.has("done") {
            bad = Some(format!("process {} instead of a catchable refusal / normal return", if p.fate == Fate::Signaled(6) { "aborted (SIGABRT)".to_string() } else { p.fate.describe() }));
        } else if got_class != want {
            bad = Some(format!("outcome {} but the rule says {}", outcome, want));
        } else if want != "ok" {
            if p.find("disp_changed=") != Some("0") {
                bad = Some("signal dispositions changed by a refused registration".into());
            } else if p.find("strong=").map_or(false, |x| x != "0" && x != "1") {
                bad = Some(format!("captured flag reference not released after refusal (strong count {})", p.find("strong=").unwrap_or("")));
            } else if p.find("first_still_registered=").map_or(false, |x| x != "0") {
                bad = Some(format!("the action registered for the accepted signal listed before the refused one is still in the registry (a delivery of it makes {} wake attempts)", p.find("first_still_registered=").unwrap_or("")));
            } else if p.find("fds_leaked=").map_or(false, |x| x != "0") {
                bad = Some(format!("{} descriptors of the half-built instance stay open after the refusal", p.find("fds_leaked=").unwrap_or("")));
            } else if p.find("fd_open=") == Some("1") {
                bad = Some("descriptor handed in is still open after refusal".into());
            } else if c == 1 && p.find("probe_hits=") != Some("1,1") {
                bad = Some(format!("previously registered actions did not fire exactly once after the refusal ({})", p.find("probe_hits=").unwrap_or("")));
            } else if p.find("next=") != Some("ok") {
                bad = Some(format!("library not usable afterwards: a valid registration through the same entry point gave {}", p.find("next=").unwrap_or("")));
            }
        }
        if let Some(m) = bad {
            violations.push(BViolation { message: format!("C14: {} with signal {} ({}): {}", ENTRY[en], s, ["fresh process", "after two registrations", "after an unchecked registration and removal of the same number", "on an instance that has been closed", "on an instance that already watches SIGHUP and SIGINT"][c], m), case });
        }
    }
    BResult {
        states: cells.len() as u64,
        transitions: cells.len() as u64 * 2,
        evaluations: cells.len() as u64,
        distinct: distinct.len() as u64,
        samples,
        per_class: json!(classes),
        violations,
        exhaustive: true,
        caps: vec![],
        rule: "complete grid entry point (19: the three iterator constructors also with an accepted signal listed before the number under test - its action, slots and pipe must be gone after the refusal) x signal number ([-2,130] + i32::MIN/MAX) x context {fresh, after two other registrations, after an unchecked registration+removal of the same number; Handle::add_signal also on a closed instance and on one that already watches SIGHUP and SIGINT}; expected class per cell from a rule (forbidden+checked => catchable panic; OS verdict obtained by an independent sibling calling sigaction => Err; iterator front-ends panic for negative / >= 128; register_conditional_default Err for numbers without a name; else Ok); plus 4 refused registrations whose action captured state that re-enters the library when released; distinct = distinct (entry, outcome class, child fate, expected) tuples".into(),
        assumptions: vec!["kernel/libc verdict on a signal number is taken from an independent sigaction call in a sibling process".into(), "x86-64 Linux".into()],
    }
}
