//! C15: flags and conditional shutdown do exactly what the flag state dictates.
//! Every history up to a depth over {deliver, app writes true/false/other} x registration order x
//! termination signal, each in a forked child whose fate is compared with a one-boolean model.
#![allow(clippy::all)]
use super::*;
use crate::histex::{run_cells, BResult, BViolation, Emit, Fate};
use serde_json::json;
use std::sync::atomic::{AtomicBool, AtomicI32, AtomicUsize, Ordering};
use std::sync::Arc;
use std::time::Duration;

static PIPE_FD: AtomicI32 = AtomicI32::new(-1);
static STEP: AtomicUsize = AtomicUsize::new(0);

extern "C" fn at_exit_hook() {
    let fd = PIPE_FD.load(Ordering::SeqCst);
    let m = b"atexit-ran\n";
    unsafe {
        libc::write(fd, m.as_ptr() as *const _, m.len());
    }
}

fn raw_line(prefix: &[u8]) {
    // async-signal-safe line "<prefix><step>\n"
    let fd = PIPE_FD.load(Ordering::SeqCst);
    let mut buf = [0u8; 40];
    let mut n = 0;
    for &b in prefix {
        buf[n] = b;
        n += 1;
    }
    let s = STEP.load(Ordering::SeqCst);
    buf[n] = b'0' + (s / 10) as u8;
    buf[n + 1] = b'0' + (s % 10) as u8;
    buf[n + 2] = b'\n';
    unsafe {
        libc::write(fd, buf.as_ptr() as *const _, n + 3);
    }
}

#[derive(Clone, Copy, Debug, PartialEq)]
pub enum Op {
    Deliver,
    True,
    False,
    Other,
}

const VALUE: usize = 42;
const ENV_DESC: [&str; 3] = ["undisturbed", "another thread installs its own handler right before the library re-raises the signal", "another termination signal is blocked and pending with its default disposition"];
const THREADS_DESC: [&str; 7] = ["single-threaded process", "a second thread is alive; deliveries on the main thread", "deliveries on a second thread; the main thread is alive", "standard error is a pipe nobody reads any more (SIGPIPE at its default)", "standard error is a completely full pipe in blocking mode", "standard output is a pipe nobody reads any more (SIGPIPE at its default)", "standard output is a completely full pipe in blocking mode"];

/// The standard descriptors are not the library's to rely on. `env` 3 / 5: standard error / output is a
/// pipe whose reader is gone and SIGPIPE is at its default (a write kills the process); 4 / 6: it is a
/// completely full pipe in blocking mode (a write blocks for ever).
pub(crate) fn std_fd_env(threads: u8) {
    unsafe {
        let mut fds = [0i32; 2];
        libc::pipe(fds.as_mut_ptr());
        if threads % 2 == 1 {
            libc::close(fds[0]);
            let mut sa: libc::sigaction = std::mem::zeroed();
            sa.sa_sigaction = libc::SIG_DFL;
            libc::sigaction(libc::SIGPIPE, &sa, std::ptr::null_mut());
        } else {
            let fl = libc::fcntl(fds[1], libc::F_GETFL, 0);
            libc::fcntl(fds[1], libc::F_SETFL, fl | libc::O_NONBLOCK);
            let b = [0u8; 4096];
            while libc::write(fds[1], b.as_ptr() as *const _, b.len()) > 0 {}
            while libc::write(fds[1], b.as_ptr() as *const _, 1) > 0 {}
            libc::fcntl(fds[1], libc::F_SETFL, fl);
        }
        libc::dup2(fds[1], if threads <= 4 { 2 } else { 1 });
    }
}

/// `threads`: 0 = single-threaded; 1 = a second thread is alive while the main thread gets the signals;
/// 2 = the signals are delivered to (and the history is run by) a second thread while the main thread
/// is alive. A process that outlives the fatal delivery is ended by the idle thread with status 98 / 99.
fn child(order_shutdown_first: bool, sig: i32, status: i32, hist: &[Op], moved: bool, threads: u8, e: &mut Emit) {
    match threads {
        1 => {
            std::thread::spawn(|| {
                std::thread::sleep(Duration::from_secs(4));
                unsafe { libc::_exit(99) }
            });
            std::thread::sleep(Duration::from_millis(20));
            child_body(order_shutdown_first, sig, status, hist, moved, e)
        }
        2 => std::thread::scope(|sc| {
            sc.spawn(|| child_body(order_shutdown_first, sig, status, hist, moved, e));
            std::thread::sleep(Duration::from_secs(4));
            unsafe { libc::_exit(98) }
        }),
        3 | 4 | 5 | 6 => {
            std_fd_env(threads);
            child_body(order_shutdown_first, sig, status, hist, moved, e)
        }
        _ => child_body(order_shutdown_first, sig, status, hist, moved, e),
    }
}

fn child_body(order_shutdown_first: bool, sig: i32, status: i32, hist: &[Op], moved: bool, e: &mut Emit) {
    PIPE_FD.store(e.fd(), Ordering::SeqCst);
    unsafe {
        libc::atexit(at_exit_hook);
    }
    // `moved`: the application hands its only strong handle of the condition to the shutdown
    // registration and keeps a weak one, through which it arms / disarms / reads later on
    let strong = Arc::new(AtomicBool::new(false));
    let weak = Arc::downgrade(&strong);
    let mut strong = Some(strong);
    let uflag = Arc::new(AtomicUsize::new(0));
    if status % 4 == 2 {
        // the signal already had a handler of the application's, installed one-shot, before the library took it over
        extern "C" fn prev(_: libc::c_int) {}
        unsafe {
            let mut sa: libc::sigaction = std::mem::zeroed();
            sa.sa_sigaction = prev as usize;
            sa.sa_flags = libc::SA_RESETHAND;
            libc::sigaction(sig, &sa, std::ptr::null_mut());
        }
    }
    if order_shutdown_first {
        // (with an odd status:) an unrelated action was registered on the signal before and is removed
        // again after the two - registration order is what counts, not what came and went around them
        let unrelated = if status % 2 == 1 { Some(unsafe { signal_hook_registry::register(sig, || ()) }.unwrap()) } else { None };
        let c = if moved { strong.take().unwrap() } else { strong.as_ref().unwrap().clone() };
        signal_hook::flag::register_conditional_shutdown(sig, status, c).unwrap();
        signal_hook::flag::register(sig, weak.upgrade().unwrap()).unwrap();
        if let Some(id) = unrelated {
            signal_hook_registry::unregister(id);
        }
    } else {
        signal_hook::flag::register(sig, weak.upgrade().unwrap()).unwrap();
        let c = if moved { strong.take().unwrap() } else { strong.as_ref().unwrap().clone() };
        signal_hook::flag::register_conditional_shutdown(sig, status, c).unwrap();
    }
    let flag = weak.upgrade().unwrap();
    if moved {
        drop(flag);
    }
    let flag = || weak.upgrade().unwrap();
    signal_hook::flag::register_usize(sig, uflag.clone(), VALUE).unwrap();
    unsafe { signal_hook_registry::register(sig, || raw_line(b"late-action-ran ")) }.unwrap();
    for (k, op) in hist.iter().enumerate() {
        STEP.store(k, Ordering::SeqCst);
        match op {
            Op::Deliver => {
                unsafe {
                    libc::raise(sig); // thread-directed: the calling thread runs the handler
                }
                e.line(&format!("after-deliver {} flag={} uflag={}", k, flag().load(Ordering::SeqCst) as u8, uflag.load(Ordering::SeqCst)));
            }
            Op::True => flag().store(true, Ordering::SeqCst),
            Op::False => flag().store(false, Ordering::SeqCst),
            Op::Other => {
                uflag.store(7, Ordering::SeqCst);
                flag().store(false, Ordering::SeqCst);
            }
        }
        e.line(&format!("step-done {}", k));
    }
    e.line("survived");
    // leave without running exit-time hooks so that "atexit-ran" only ever comes from the library's path
    unsafe {
        libc::_exit(0);
    }
}

/// `register_conditional_default` on a signal whose default is to terminate: dies in the first delivery
/// with the condition true - by that signal, or by the documented abort fall-back when `race` arms the
/// environment deviation "another thread installs a handler of its own right before the re-raise".
fn child_default(sig: i32, hist: &[Op], env: u8, e: &mut Emit) {
    let race = env == 1;
    if env == 2 {
        // another termination signal is blocked and pending (default disposition) all along
        let other = if sig == libc::SIGINT { libc::SIGTERM } else { libc::SIGINT };
        unsafe {
            let mut set: libc::sigset_t = std::mem::zeroed();
            libc::sigemptyset(&mut set);
            libc::sigaddset(&mut set, other);
            libc::sigprocmask(libc::SIG_BLOCK, &set, std::ptr::null_mut());
            libc::syscall(libc::SYS_tgkill, libc::getpid(), libc::syscall(libc::SYS_gettid) as libc::pid_t, other);
        }
    }
    PIPE_FD.store(e.fd(), Ordering::SeqCst);
    unsafe {
        libc::atexit(at_exit_hook);
        let rl = libc::rlimit { rlim_cur: 0, rlim_max: 0 };
        libc::setrlimit(libc::RLIMIT_CORE, &rl);
    }
    let cond = Arc::new(AtomicBool::new(false));
    signal_hook::flag::register_conditional_default(sig, cond.clone()).unwrap();
    if race {
        RAISE_RACE_SIG.store(sig, Ordering::SeqCst);
    }
    for (k, op) in hist.iter().enumerate() {
        STEP.store(k, Ordering::SeqCst);
        match op {
            Op::Deliver => {
                // not through raise(): every raise() the interposer sees comes from the library
                unsafe {
                    libc::syscall(libc::SYS_tgkill, libc::getpid(), libc::syscall(libc::SYS_gettid) as libc::pid_t, sig);
                }
            }
            Op::True => cond.store(true, Ordering::SeqCst),
            Op::False | Op::Other => cond.store(false, Ordering::SeqCst),
        }
        e.line(&format!("step-done {}", k));
    }
    e.line(&format!("library-raises {}", RAISE_RACE_HITS.load(Ordering::SeqCst)));
    e.line("survived");
    unsafe {
        libc::_exit(0);
    }
}

/// `register_conditional_default` armed, on any signal it accepts: one delivery does what this
/// platform's default disposition does (the checker's own table of Linux defaults, not the library's).
fn child_default_any(sig: i32, e: &mut Emit) {
    unsafe {
        let rl = libc::rlimit { rlim_cur: 0, rlim_max: 0 };
        libc::setrlimit(libc::RLIMIT_CORE, &rl);
    }
    let cond = Arc::new(AtomicBool::new(true));
    match signal_hook::flag::register_conditional_default(sig, cond) {
        Err(_) => e.line("refused"),
        Ok(_) => {
            e.line("accepted");
            unsafe {
                libc::syscall(libc::SYS_tgkill, libc::getpid(), libc::syscall(libc::SYS_gettid) as libc::pid_t, sig);
            }
            e.line("survived");
        }
    }
    unsafe {
        libc::_exit(0);
    }
}

/// `register_conditional_default` on a signal whose default is to stop: armed -> the delivery stops the
/// process; after it was continued and the condition disarmed, the next delivery does nothing (and a
/// flag registered on the same signal is still set by it).
fn child_default_stop(sig: i32, e: &mut Emit) {
    let cond = Arc::new(AtomicBool::new(true));
    let flag = Arc::new(AtomicBool::new(false));
    signal_hook::flag::register(sig, flag.clone()).unwrap();
    signal_hook::flag::register_conditional_default(sig, cond.clone()).unwrap();
    let deliver = || unsafe {
        libc::syscall(libc::SYS_tgkill, libc::getpid(), libc::syscall(libc::SYS_gettid) as libc::pid_t, sig);
    };
    e.line("armed-delivery");
    deliver(); // stops here; the checker continues the process
    e.line("continued-after-stop");
    cond.store(false, Ordering::SeqCst);
    flag.store(false, Ordering::SeqCst);
    deliver();
    e.line(&format!("disarmed-delivery-returned flag={}", flag.load(Ordering::SeqCst) as u8));
    e.line("survived");
    unsafe {
        libc::_exit(0);
    }
}

fn linux_default_terminates(sig: i32) -> bool {
    ![libc::SIGCHLD, libc::SIGCONT, libc::SIGURG, libc::SIGWINCH, libc::SIGSTOP, libc::SIGTSTP, libc::SIGTTIN, libc::SIGTTOU].contains(&sig)
}

/// Model: returns the index of the fatal delivery, if any.
fn model(order_shutdown_first: bool, hist: &[Op]) -> Option<usize> {
    let mut b = false;
    for (k, op) in hist.iter().enumerate() {
        match op {
            Op::Deliver => {
                if order_shutdown_first {
                    if b {
                        return Some(k);
                    }
                    b = true;
                } else {
                    return Some(k);
                }
            }
            Op::True => b = true,
            Op::False | Op::Other => b = false,
        }
    }
    None
}

pub fn run(tier: Tier) -> BResult {
    let depth = if tier == Tier::Quick { 4 } else { 5 };
    let ops = [Op::Deliver, Op::True, Op::False, Op::Other];
    let mut hists: Vec<Vec<Op>> = vec![vec![]];
    let mut all: Vec<Vec<Op>> = Vec::new();
    for _ in 0..depth {
        let mut next = Vec::new();
        for h in &hists {
            for &o in &ops {
                let mut n = h.clone();
                n.push(o);
                next.push(n);
            }
        }
        all.extend(next.iter().cloned());
        hists = next;
    }
    // cells: (order, sig, status, history)
    let mut cells: Vec<(bool, i32, i32, Vec<Op>, bool, u8)> = Vec::new();
    let term = signal_hook::consts::TERM_SIGNALS;
    for &order in &[true, false] {
        for (si, &sig) in term.iter().enumerate() {
            for h in &all {
                if !h.contains(&Op::Deliver) {
                    continue;
                }
                // all lengths with the first termination signal; only the full depth with the others
                if si > 0 && h.len() < depth {
                    continue;
                }
                cells.push((order, sig, 17 + si as i32, h.clone(), false, 0));
                if si == 0 {
                    cells.push((order, sig, 17, h.clone(), true, 0));
                }
            }
        }
    }
    let statuses: Vec<i32> = if tier == Tier::Quick { vec![0, 1, 42, 255] } else { (0..=255).collect() };
    for &st in &statuses {
        cells.push((true, libc::SIGTERM, st, vec![Op::Deliver, Op::Deliver], false, 0));
        cells.push((false, libc::SIGTERM, st, vec![Op::Deliver], false, 0));
        cells.push((true, libc::SIGINT, st, vec![Op::Deliver, Op::False, Op::Deliver, Op::Deliver], st % 2 == 1, 0));
    }
    // processes with a second live thread: the fatal delivery on the main thread / on the other thread
    for &sig in term.iter() {
        for threads in [1u8, 2] {
            for st in [0, 1, 77, 255] {
                cells.push((true, sig, st, vec![Op::Deliver, Op::Deliver], false, threads));
                cells.push((false, sig, st, vec![Op::Deliver], false, threads));
                cells.push((true, sig, st, vec![Op::Deliver, Op::False, Op::Deliver], false, threads));
            }
        }
    }
    // the standard descriptors in a state in which a write kills or blocks the process
    for &sig in term.iter() {
        for env in [3u8, 4, 5, 6] {
            cells.push((true, sig, 7, vec![Op::Deliver, Op::Deliver], false, env));
            cells.push((false, sig, 7, vec![Op::Deliver], false, env));
        }
    }
    // conditional default: histories of length <= 3 x termination signals x {no race, racing handler installation}
    let mut dcells: Vec<(i32, Vec<Op>, u8)> = Vec::new();
    for &sig in term.iter() {
        for h in all.iter().filter(|h| h.len() <= 3 && h.contains(&Op::Deliver) && !h.contains(&Op::Other)) {
            for env in [0u8, 1, 2] {
                dcells.push((sig, h.clone(), env));
            }
        }
    }
    let any_sigs: Vec<i32> = (1..=64).filter(|s| !forbidden(*s) && *s != 32 && *s != 33 && ![libc::SIGTSTP, libc::SIGTTIN, libc::SIGTTOU].contains(s)).collect();
    let any2 = any_sigs.clone();
    let aprobes = run_cells(any_sigs.len(), 16, Duration::from_secs(20), move |i, e| child_default_any(any2[i], e));
    // stop-kind signals: inside a process group that is not orphaned (the kernel discards terminal stop
    // signals in orphaned groups): an intermediate child makes a new group, this checker stays in the old one
    let stop_sigs = [libc::SIGTSTP, libc::SIGTTIN, libc::SIGTTOU];
    let souter = run_cells(1, 1, Duration::from_secs(120), move |_, e| {
        unsafe {
            libc::setpgid(0, 0);
        }
        let inner = run_cells(stop_sigs.len(), 3, Duration::from_secs(20), move |i, e2| child_default_stop(stop_sigs[i], e2));
        for (i, p) in inner.iter().enumerate() {
            e.line(&format!("{}|{}|{}|{}", i, p.fate.describe(), p.after_cont.as_ref().map_or("-".to_string(), |f| f.describe()), p.lines.join(";")));
        }
        e.line("outer-done");
    });
    let cells2 = cells.clone();
    let dcells2 = dcells.clone();
    let nmain = cells.len();
    let probes = run_cells(cells.len() + dcells.len(), 16, Duration::from_secs(30), move |i, e| {
        if i < nmain {
            let (o, s, st, h, mv, th) = &cells2[i];
            child(*o, *s, *st, h, *mv, *th, e);
        } else {
            let (s, h, env) = &dcells2[i - nmain];
            child_default(*s, h, *env, e);
        }
    });
    let mut violations = Vec::new();
    let mut samples = Vec::new();
    let mut classes: std::collections::BTreeMap<String, u64> = Default::default();
    let mut distinct = std::collections::HashSet::new();
    let mut transitions = 0u64;
    if !souter[0].has("outer-done") {
        violations.push(BViolation { message: format!("engine: stop-signal probe group failed: {:?}", souter[0].fate), case: json!({}) });
    }
    for l in souter[0].lines.iter().filter(|l| l.contains('|')) {
        let parts: Vec<&str> = l.split('|').collect();
        if parts.len() != 4 {
            continue;
        }
        let sig = stop_sigs[parts[0].parse::<usize>().unwrap_or(0)];
        transitions += 4;
        *classes.entry("conditional-default:stop-kind".into()).or_insert(0) += 1;
        let case = json!({"entry": "register_conditional_default", "signal": sig, "history": "armed delivery (stops), continued, disarmed, delivery"});
        let (first, after, lines) = (parts[1], parts[2], parts[3]);
        let bad = if !first.starts_with("stopped") {
            Some(format!("armed, but the first delivery did not stop the process: {}", first))
        } else if after != "exited(0)" || !lines.contains("survived") {
            Some(format!("after it was continued and the condition disarmed, the next delivery must do nothing, but the process {} (reported: {})", after, lines))
        } else if !lines.contains("disarmed-delivery-returned flag=1") {
            Some(format!("the flag registered on the same signal was not set by the later delivery (the library's handler no longer gets the signal): {}", lines))
        } else {
            None
        };
        if let Some(m) = bad {
            violations.push(BViolation { message: format!("C15: register_conditional_default / stop signal {}: {}", sig, m), case });
        }
    }
    for (i, p) in aprobes.iter().enumerate() {
        let sig = any_sigs[i];
        transitions += 2;
        let case = json!({"entry": "register_conditional_default", "signal": sig, "history": "armed, one delivery"});
        *classes.entry(format!("conditional-default-any:{}", if p.has("refused") { "refused" } else { "accepted" })).or_insert(0) += 1;
        if p.has("refused") {
            continue;
        }
        let bad = if linux_default_terminates(sig) {
            if p.fate != Fate::Signaled(sig) { Some(format!("accepted and armed, but a delivery of signal {} (default on this platform: terminate) left the process: {}", sig, p.fate.describe())) } else { None }
        } else if p.fate != Fate::Exited(0) || !p.has("survived") {
            Some(format!("signal {} is ignored / continues by default, but the process {}", sig, p.fate.describe()))
        } else {
            None
        };
        if let Some(m) = bad {
            violations.push(BViolation { message: format!("C15: register_conditional_default / signal {}: {}", sig, m), case });
        }
    }
    for (i, p) in probes.iter().enumerate().skip(nmain) {
        let (sig, h, env) = &dcells[i - nmain];
        let race = &(*env == 1);
        transitions += h.len() as u64;
        // fatal delivery: the first one with the condition true
        let mut b = false;
        let mut fatal: Option<usize> = None;
        for (k, op) in h.iter().enumerate() {
            match op {
                Op::Deliver if b => {
                    fatal = Some(k);
                    break;
                }
                Op::True => b = true,
                Op::False | Op::Other => b = false,
                _ => {}
            }
        }
        let case = json!({"entry": "register_conditional_default", "signal": sig, "history": h.iter().map(|o| format!("{:?}", o)).collect::<Vec<_>>(), "environment": ENV_DESC[*env as usize], "model_fatal_delivery": fatal});
        *classes.entry(format!("conditional-default:{}:{}", ["plain", "raced", "other-pending"][*env as usize], if fatal.is_some() { "dies" } else { "survives" })).or_insert(0) += 1;
        distinct.insert((*race, fatal, p.fate.describe(), 100 + h.len()));
        let mut bad: Option<String> = None;
        match fatal {
            None => {
                if p.fate != Fate::Exited(0) || !p.has("survived") {
                    bad = Some(format!("the condition is false in every delivery, but the process {}", p.fate.describe()));
                }
            }
            Some(k) => {
                let ok_fate = p.fate == Fate::Signaled(*sig) || (*race && p.fate == Fate::Signaled(libc::SIGABRT));
                if !ok_fate {
                    bad = Some(format!("must be terminated in delivery #{} (by signal {}{}), but it {}", k, sig, if *race { " or by the abort fall-back" } else { "" }, p.fate.describe()));
                } else if p.has(&format!("step-done {}", k)) {
                    bad = Some(format!("terminated later than in delivery #{}", k));
                } else if k > 0 && !p.has(&format!("step-done {}", k - 1)) {
                    bad = Some(format!("terminated earlier than delivery #{}", k));
                } else if p.has("atexit-ran") {
                    bad = Some("exit-time hooks ran".into());
                }
            }
        }
        if let Some(m) = bad {
            violations.push(BViolation { message: format!("C15: register_conditional_default / signal {} / history {:?}{}: {}", sig, h, ["", " / a handler installed by another thread right before the re-raise", " / another termination signal blocked and pending"][*env as usize], m), case });
        }
    }
    for (i, p) in probes.iter().enumerate().take(nmain) {
        let (order, sig, status, h, moved, threads) = &cells[i];
        transitions += h.len() as u64;
        let fatal = model(*order, h);
        let case = json!({"registration_order": if *order { "shutdown first, flag second" } else { "flag first, shutdown second" }, "signal": sig, "status": status, "threads": THREADS_DESC[*threads as usize], "condition_handle": if *moved { "sole strong handle moved into the registration, application keeps a weak one" } else { "shared clone" }, "history": h.iter().map(|o| format!("{:?}", o)).collect::<Vec<_>>(), "model_fatal_delivery": fatal});
        *classes.entry(format!("{}:{}", if *order { "shutdown-first" } else { "flag-first" }, match fatal { Some(_) => "dies", None => "survives" })).or_insert(0) += 1;
        distinct.insert((*order, fatal, p.fate.describe(), h.len()));
        if samples.len() < 4 && i % 211 == 0 {
            samples.push(json!({"case": case, "child": p.fate.describe(), "reported": p.lines}));
        }
        let mut bad: Option<String> = None;
        match fatal {
            None => {
                if p.fate != Fate::Exited(0) || !p.has("survived") {
                    bad = Some(format!("the model says the process survives, but it {}", p.fate.describe()));
                }
            }
            Some(k) => {
                if p.fate != Fate::Exited(*status) {
                    bad = Some(format!("must terminate in delivery #{} with exit status {}, but it {}", k, status, p.fate.describe()));
                } else if p.has("survived") || p.has(&format!("step-done {}", k)) {
                    bad = Some(format!("terminated later than in the delivery in which the condition was true (#{})", k));
                } else if k > 0 && !p.has(&format!("step-done {}", k - 1)) {
                    bad = Some(format!("terminated earlier than delivery #{}", k));
                } else if p.has("atexit-ran") {
                    bad = Some("exit-time hooks ran (exit instead of _exit)".into());
                } else if *order && p.has(&format!("late-action-ran {:02}", k)) {
                    bad = Some("an action registered after the shutdown action still ran in the fatal delivery".into());
                }
            }
        }
        if bad.is_none() {
            for l in p.all("after-deliver ") {
                if !l.contains("flag=1") || !l.contains(&format!("uflag={}", VALUE)) {
                    bad = Some(format!("after a delivery returned the flags do not hold true / the registered value: {}", l));
                }
            }
        }
        if let Some(m) = bad {
            violations.push(BViolation { message: format!("C15: {} / signal {} / status {} / history {:?}{}: {}", if *order { "shutdown first" } else { "flag first" }, sig, status, h, format!("{}{}", if *moved { " / condition moved into the registration, armed through a weak handle" } else { "" }, ["", " / process with a second live thread", " / delivered on a second thread", " / standard error is a pipe without a reader", " / standard error is a full blocking pipe", " / standard output is a pipe without a reader", " / standard output is a full blocking pipe"][*threads as usize]), m), case });
        }
    }
    BResult {
        states: distinct.len() as u64,
        transitions,
        evaluations: (cells.len() + dcells.len()) as u64,
        distinct: distinct.len() as u64,
        samples,
        per_class: json!(classes),
        violations,
        exhaustive: true,
        caps: vec![],
        rule: format!("every history of length 1..{} over {{deliver, app stores true, app stores false, app stores another value}} containing a delivery x both registration orders x termination signals (full depth for all, all lengths for the first) x how the condition is shared (a clone; or, with the first signal, the only strong handle moved into the registration while the application arms through a weak one) + exit statuses {:?}.. on canonical histories; reference model = one boolean; register_conditional_default on the stop signals (armed delivery stops, continued, disarmed delivery does nothing; in a non-orphaned process group); register_conditional_default armed on every signal 1..64 it accepts (one delivery: the platform default per the checker's own table); the canonical histories again in processes with a second live thread (deliveries on the main thread / on the other one); plus register_conditional_default: every history of length <= 3 over (deliver, arm, disarm) x termination signals x (undisturbed / another thread installs a handler right before the library re-raises, injected at the interposed raise / another termination signal blocked and pending) - terminated in exactly the first armed delivery; distinct = distinct (order, fatal delivery index, child fate, length)", depth, &statuses[..statuses.len().min(4)]),
        assumptions: vec!["exit-time hooks observed through libc::atexit".into()],
    }
}
