//! Engine-B property checks.
#![allow(clippy::all)]
pub mod c14;
pub mod c16;
pub mod c15;
pub mod c13;
pub mod c17;
pub mod c12;
pub mod c05;
pub mod c03grid;
pub mod forkgrid;

use crate::histex::BResult;
use crate::props::Tier;

pub fn run(prop: &str, tier: Tier) -> Option<BResult> {
    match prop {
        "C14" => Some(c14::run(tier)),
        "C16" => Some(c16::run(tier)),
        "C15" => Some(c15::run(tier)),
        "C13" => Some(c13::run(tier)),
        "C17" => Some(c17::run(tier)),
        "C12" => Some(c12::run(tier)),
        "C05" => Some(c05::run(tier)),
        _ => None,
    }
}

/// Fork-based grids that belong to a property whose main check is engine A.
pub fn grid_for_a(prop: &str, tier: Tier) -> Option<BResult> {
    match prop {
        "C03" => Some(c03grid::run(tier)),
        "C09" | "C10" | "C11" => Some(forkgrid::run(prop, tier)),
        _ => None,
    }
}

pub fn sig_list() -> Vec<i32> {
    let mut v: Vec<i32> = (-2..=130).collect();
    v.push(i32::MIN);
    v.push(i32::MAX);
    v
}

/// The forbidden signals as the property states them (not read from the library).
pub fn forbidden(s: i32) -> bool {
    [libc::SIGKILL, libc::SIGSTOP, libc::SIGILL, libc::SIGFPE, libc::SIGSEGV].contains(&s)
}

// Interposed close(): counts application-level close calls per descriptor number (C13).
pub static CLOSE_COUNT: [std::sync::atomic::AtomicU32; 1024] = {
    const Z: std::sync::atomic::AtomicU32 = std::sync::atomic::AtomicU32::new(0);
    [Z; 1024]
};

#[no_mangle]
pub extern "C" fn close(fd: libc::c_int) -> libc::c_int {
    if fd >= 0 && (fd as usize) < 1024 {
        CLOSE_COUNT[fd as usize].fetch_add(1, std::sync::atomic::Ordering::SeqCst);
    }
    unsafe { libc::syscall(libc::SYS_close, fd) as libc::c_int }
}

// Interposed raise(): by default exactly what libc does for the calling thread (a thread-directed
// signal to itself, delivered before the call returns). A cell can arm one environment deviation:
// "another thread installs its own handler for this signal right before the library re-raises it"
// (C15: the terminate-by-default emulation must still end the process).
pub static RAISE_RACE_SIG: std::sync::atomic::AtomicI32 = std::sync::atomic::AtomicI32::new(0);
pub static RAISE_RACE_HITS: std::sync::atomic::AtomicU32 = std::sync::atomic::AtomicU32::new(0);

extern "C" fn racing_foreign_handler(_: libc::c_int) {}

#[no_mangle]
pub extern "C" fn raise(sig: libc::c_int) -> libc::c_int {
    unsafe {
        if sig != 0 && sig == RAISE_RACE_SIG.load(std::sync::atomic::Ordering::SeqCst) {
            RAISE_RACE_HITS.fetch_add(1, std::sync::atomic::Ordering::SeqCst);
            let mut sa: libc::sigaction = std::mem::zeroed();
            sa.sa_sigaction = racing_foreign_handler as usize;
            libc::sigaction(sig, &sa, std::ptr::null_mut());
        }
        let r = libc::syscall(libc::SYS_tgkill, libc::getpid(), libc::syscall(libc::SYS_gettid) as libc::pid_t, sig);
        if r == 0 {
            0
        } else {
            -1
        }
    }
}

pub fn close_count(fd: i32) -> u32 {
    if fd >= 0 && (fd as usize) < 1024 {
        CLOSE_COUNT[fd as usize].load(std::sync::atomic::Ordering::SeqCst)
    } else {
        0
    }
}

pub fn dispositions() -> Vec<(usize, i32)> {
    let mut v = Vec::new();
    for s in 1..=64 {
        unsafe {
            let mut sa: libc::sigaction = std::mem::zeroed();
            if libc::sigaction(s, std::ptr::null(), &mut sa) == 0 {
                v.push((sa.sa_sigaction, sa.sa_flags));
            } else {
                v.push((usize::MAX, -1));
            }
        }
    }
    v
}

pub fn fd_open(fd: i32) -> bool {
    unsafe { libc::fcntl(fd, libc::F_GETFD) != -1 }
}

pub fn panic_msg(p: &Box<dyn std::any::Any + Send>) -> String {
    if let Some(s) = p.downcast_ref::<&str>() {
        s.to_string()
    } else if let Some(s) = p.downcast_ref::<String>() {
        s.clone()
    } else {
        "panic".into()
    }
}
