#!/usr/bin/env python3
"""seed_keep.py <ID> <demo intended path> <needs...> : copy a confirmed sub-agent change into /verif/seeded/<ID>/"""
import sys, os, json, shutil, subprocess, re
sid, demo_path, needs = sys.argv[1], sys.argv[2], " ".join(sys.argv[3:])
src=f"/tmp/seed/out/{sid}"; dst=f"/verif/seeded/{sid}"
os.makedirs(dst+"/demo", exist_ok=True)
patch = src+"/patch.diff"
shutil.copy(patch, dst+"/patch.diff")
for f in os.listdir(src+"/demo"): shutil.copy(src+"/demo/"+f, dst+"/demo/"+f)
shutil.copy(src+"/README.md", dst+"/AGENT_README.md")
prop=[json.loads(l) for l in open('/verif/properties.jsonl') if json.loads(l)['id']==sid[:3]][0]
meta={"property": sid[:3], "seed_id": sid, "title": prop["title"], "origin": "independent sub-agent that saw only this property's text and a scratch worktree of /repo",
      "needs_to_manifest": needs, "demo_intended_path": demo_path,
      "confirmed_by_me": "scratch worktree /tmp/seed/%s: original 36 tests pass with the patch; the demonstration fails with the patch and passes without (confirm_seed.sh)"%sid,
      "applies_to_repo_head": subprocess.run(["git","-C","/repo","rev-parse","--short","HEAD"],capture_output=True,text=True).stdout.strip()}
json.dump(meta, open(dst+"/meta.json","w"), indent=1)
print("kept", sid)
